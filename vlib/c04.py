"""C04 — column values equal what the OS and the file content say."""
import hashlib
import os
import stat

from . import fstree
from . import qlib
from .common import gstr, coq_eval, parse_nested, cps_to_str, pmap

MODE_COLS = ["mode", "is_file", "is_dir", "is_symlink", "is_pipe", "is_char", "is_block", "is_socket",
             "user_read", "user_write", "user_exec", "user_all", "group_read", "group_write", "group_exec", "group_all",
             "other_read", "other_write", "other_exec", "other_all", "suid", "sgid"]

COQ_HEADER = """From Coq Require Import List NArith Bool.
From FS Require Import lib.Str spec.ModeSpec gen.ModeGen.
Import ListNotations. Open Scope N_scope.
(* only gen/ and spec/ are imported: the model must still run when a proof about it no longer compiles *)
Definition ftype (m : N) := N.land m 61440.
Definition type_flags (m : N) : list bool :=
  [ftype m =? 32768; ftype m =? 16384; ftype m =? 40960; mode_is_pipe m; mode_is_char_device m; mode_is_block_device m; mode_is_socket m].
Definition row (m : N) := (get_mode_unix m, type_flags m,
  [mode_user_read m; mode_user_write m; mode_user_exec m; mode_user_all m;
   mode_group_read m; mode_group_write m; mode_group_exec m; mode_group_all m;
   mode_other_read m; mode_other_write m; mode_other_exec m; mode_other_all m; mode_suid m; mode_sgid m]).
"""


def perms_for(ctx):
    if ctx.tier == "thorough":
        return list(range(4096))
    base = {0, 0o777, 0o7777, 0o644, 0o755, 0o4755, 0o2755, 0o1777, 0o4644, 0o2644, 0o1644, 0o111, 0o222, 0o444,
            0o4000, 0o2000, 0o1000, 0o100, 0o010, 0o001, 0o400, 0o040, 0o004, 0o200, 0o020, 0o002}
    while len(base) < 96:
        base.add(ctx.rng.randrange(4096))
    return sorted(base)


def run_modes(ctx):
    """Every creatable file type x permission values, on disk: binary columns vs model vs lstat."""
    root = os.path.join(ctx.scratch, "modes")
    os.mkdir(root)
    kinds = ["file", "dir", "fifo", "sock"]
    if fstree.can_mknod():
        kinds += ["chr", "blk"]
    else:
        ctx.notes.append("mknod not permitted here: character/block devices not created on disk (still covered by the finite-domain theorem)")
    perms = perms_for(ctx)
    dirs = []
    for k in kinds:
        d = os.path.join(root, k)
        os.mkdir(d)
        nodes = [{"name": "%s%04o" % (k[0], p), "kind": k, "perm": p} for p in perms]
        fstree.build(d, nodes)
        dirs.append(d)
    d = os.path.join(root, "link")
    os.mkdir(d)
    fstree.build(d, [{"name": "l_dangling", "kind": "link", "target": "nowhere"},
                     {"name": "l_file", "kind": "link", "target": "../file/f0644"},
                     {"name": "l_dir", "kind": "link", "target": "../dir"}])
    dirs.append(d)
    query_cols = ", ".join(["name"] + MODE_COLS)

    def one(d):
        r = ctx.impl.rows([query_cols + " from " + d + " into list"], cwd=root)
        return d, r

    results = pmap(one, dirs)
    observed = {}
    for d, r in results:
        if r["status"] != 0 or r["stderr"]:
            ctx.violation("impl-violates-spec", "listing %s: status %s stderr %r" % (d, r["status"], r["stderr"][:200]),
                          input={"dir": d})
            continue
        vals = [v.decode("utf-8", "replace") for v in r["values"]]
        w = 1 + len(MODE_COLS)
        if len(vals) % w:
            ctx.violation("impl-violates-spec", "row width mismatch in " + d, input={"dir": d})
            continue
        for i in range(0, len(vals), w):
            observed[os.path.join(d, vals[i])] = vals[i + 1:i + w]
    entries = []
    for d in dirs:
        for name in os.listdir(d):
            p = os.path.join(d, name)
            entries.append((p, os.lstat(p).st_mode))
    modes = sorted({m for _, m in entries})
    res = coq_eval(COQ_HEADER, ["row %d" % m for m in modes], ctx.scratch, tag="c04modes")
    model = {}
    for m, txt in zip(modes, res):
        s, tf, pf = parse_nested(txt)
        model[m] = [cps_to_str(s)] + ["true" if b else "false" for b in tf + pf]
    n_ok = 0
    distinct = set()
    samples = []
    for p, m in entries:
        got = observed.get(p)
        exp_model = model[m]
        exp_spec = stat.filemode(m)
        case = {"path": os.path.relpath(p, root), "st_mode": oct(m), "columns": MODE_COLS}
        if got is None:
            ctx.violation("impl-violates-spec", "entry %s missing from the listing" % p, input=case)
            continue
        if got[0] != exp_spec:
            ctx.violation("impl-violates-spec", "mode column %r but ls -l notation is %r" % (got[0], exp_spec),
                          input=case, observed=got, expected=exp_spec)
        # independent spec for the booleans: from the ls string and S_IFMT
        spec_b = spec_bools(m)
        if got[1:] != spec_b:
            bad = [c for c, g, e in zip(MODE_COLS[1:], got[1:], spec_b) if g != e]
            ctx.violation("impl-violates-spec", "columns %s disagree with lstat st_mode %s" % (bad, oct(m)),
                          input=case, observed=got, expected=[exp_spec] + spec_b)
        if got != exp_model:
            bad = [c for c, g, e in zip(MODE_COLS, got, exp_model) if g != e]
            ctx.violation("correspondence-mismatch", "binary and model disagree on %s for st_mode %s" % (bad, oct(m)),
                          input=case, observed=got, model=exp_model, concrete=(got[0] != exp_spec or got[1:] != spec_b))
        else:
            n_ok += 1
        distinct.add(m)
        if len(samples) < 4 and (m & 0o7000):
            samples.append({"path": case["path"], "st_mode": oct(m), "binary": got, "model": exp_model})
    return dict(evaluations=len(entries), distinct=len(distinct), agreed=n_ok, samples=samples,
                kinds=kinds + ["link"], perms=len(perms))


def spec_bools(m):
    f = stat.S_IFMT(m)
    t = [f == stat.S_IFREG, f == stat.S_IFDIR, f == stat.S_IFLNK, f == stat.S_IFIFO, f == stat.S_IFCHR, f == stat.S_IFBLK,
         f == stat.S_IFSOCK]
    ur, uw, ux = bool(m & 0o400), bool(m & 0o200), bool(m & 0o100)
    gr, gw, gx = bool(m & 0o040), bool(m & 0o020), bool(m & 0o010)
    orr, ow, ox = bool(m & 0o004), bool(m & 0o002), bool(m & 0o001)
    p = [ur, uw, ux, ur and uw and ux, gr, gw, gx, gr and gw and gx, orr, ow, ox, orr and ow and ox,
         bool(m & 0o4000), bool(m & 0o2000)]
    return ["true" if b else "false" for b in t + p]


DEFAULT_EXT = None


def default_lists():
    """The default extension lists, read from the source's Config::default (vec_of_strings! literals)."""
    global DEFAULT_EXT
    if DEFAULT_EXT is None:
        import re
        from .common import REPO
        txt = open(os.path.join(REPO, "src", "config.rs")).read()
        body = txt[txt.index("pub fn default() -> Config"):]
        DEFAULT_EXT = {}
        for m in re.finditer(r"(is_\w+): vec_of_strings!\[(.*?)\]", body, re.S):
            DEFAULT_EXT[m.group(1)] = re.findall(r'"([^"]*)"', m.group(2))
    return DEFAULT_EXT


def rust_extension(name):
    """std::path::Path::extension of a file name."""
    if name in ("", ".."):
        return ""
    stem = name[1:] if name.startswith(".") else name
    if "." not in stem:
        return ""
    return name.rsplit(".", 1)[1]


def run_columns(ctx):
    """Location, metadata, class and content columns of every entry of random trees vs the operating system."""
    import pwd, grp, hashlib, time as _t
    rng = ctx.rng
    st = dict(n=0, ok=0, distinct=set(), samples=[])
    cols = ["path", "name", "ext", "dir", "abspath", "absdir", "size", "uid", "gid", "user", "group", "inode", "hardlinks", "blocks", "modified", "is_hidden", "is_empty",
            "is_archive", "is_audio", "is_book", "is_doc", "is_font", "is_image", "is_source", "is_video", "sha1", "sha256", "sha512", "sha3", "line_count", "is_shebang", "has_xattrs"]
    lists = default_lists()
    ntrees = 6 if ctx.tier == "quick" else 120
    for t in range(ntrees):
        root = os.path.join(ctx.scratch, "col%d" % t)
        os.mkdir(root)
        nodes = fstree.gen_tree(rng, max_entries=rng.choice([8, 20, 40]), max_depth=4, kinds=("file", "dir", "link", "sock"), adversarial=0.2,
                                exts=["zip", "MP3", "epub", "Pdf", "ttf", "jpeg", "rs", "mkv", "tar.gz", "txt", "7z", "docx"])

        def deco(ns):
            for n in ns:
                if n["kind"] == "file":
                    n["content"] = rng.choice([b"", b"#!/bin/sh\nexit 0\n", b"no trailing newline", b"a\nb\nc\n", bytes(range(256)) * 3, b"x" * 70000 + b"\n", b"#", b"\n" * 9000])
                    n["size"] = None
                    if rng.random() < 0.3:
                        n["mtime"] = rng.choice([0, 86399, 951782400, 1709164800, 2000000000, -1, -1.5, -86400.25, -2208988799.75, 1709164799.999])      # also before the epoch, with a sub-second part (floor, not truncation)
                    if rng.random() < 0.15:
                        n["owner"] = rng.choice([(12345, 54321), (65534, 65534), (1, 1)])
                elif n["kind"] == "dir":
                    deco(n.get("kids", []))
        deco(nodes)
        fstree.build(root, nodes)
        # contents spanning several read blocks (32 KiB, 64 KiB), with newlines everywhere and lengths that are
        # not multiples of a block: a reader that mishandles a short last block shows in line_count / the hashes
        blk = rng.choice([32768, 65536, 8192])
        multi = [(b"0123456\n") * 5000, b"ab\n" * 30000 + b"tail", b"\n" * blk + b"0123456789", b"line\n" * (blk // 5) + b"x" * (blk % 5) , b"\n" * (2 * blk),
                 (b"x" * 99 + b"\n") * rng.randint(400, 2500) + b"y" * rng.randint(0, 50), b"q\n" * (blk // 2) + b"\n" * rng.randint(1, 300)]
        for k, data in enumerate(rng.sample(multi, 3)):
            with open(os.path.join(root, "multi%d.log" % k), "wb") as f:
                f.write(data)
        # links to regular files (a script, a multi-block file; directly and through a second link): the content columns of
        # a link describe the file it leads to, all of them alike
        with open(os.path.join(root, "tool.sh"), "wb") as f:
            f.write(b"#!/bin/sh\necho tool\n")
        for lname, ltarget in (("tool", "tool.sh"), ("tool2", "tool"), ("notes", "multi0.log"), ("tool_abs", os.path.join(root, "tool.sh"))):
            if not os.path.lexists(os.path.join(root, lname)):
                os.symlink(ltarget, os.path.join(root, lname))
        xattr_paths = set()
        for dp, ds, fs in os.walk(root):
            for f in fs:
                p = os.path.join(dp, f)
                if not os.path.islink(p) and os.path.isfile(p) and rng.random() < 0.15:
                    try:
                        os.setxattr(p, "user.verif", b"1")
                        xattr_paths.add(p)
                    except OSError:
                        pass
        rows, r = qlib.select(ctx.impl, ", ".join(cols), "from %s" % os.path.basename(root), cwd=ctx.scratch)
        st["n"] += 1
        case = {"tree": root, "query": r["query"]}
        if rows is None or r["status"] != 0:
            ctx.violation("impl-violates-spec", "column query failed: status %s stderr %r" % (r["status"], r["stderr"][:200]), input=case)
            continue
        good = True
        for row in rows:
            v = dict(zip(cols, row))
            p = os.path.join(ctx.scratch, v["path"])
            try:
                ls = os.lstat(p)
            except OSError:
                ctx.violation("impl-violates-spec", "row for a path that does not exist: %r" % v["path"], input=case)
                good = False
                break
            name = os.path.basename(v["path"])
            islnk = stat.S_ISLNK(ls.st_mode)
            exp = {"name": name, "ext": rust_extension(name), "dir": os.path.dirname(v["path"]), "size": str(ls.st_size), "uid": str(ls.st_uid), "gid": str(ls.st_gid),
                   "inode": str(ls.st_ino), "hardlinks": str(ls.st_nlink), "blocks": str(ls.st_blocks),
                   "modified": _t.strftime("%Y-%m-%d %H:%M:%S", _t.gmtime(ls.st_mtime_ns // 1000000000)), "is_hidden": "true" if name.startswith(".") else "false",
                   "absdir": os.path.realpath(os.path.dirname(p))}
            try:
                exp["user"] = pwd.getpwuid(ls.st_uid).pw_name
            except KeyError:
                exp["user"] = ""
            try:
                exp["group"] = grp.getgrgid(ls.st_gid).gr_name
            except KeyError:
                exp["group"] = ""
            if not islnk:
                exp["abspath"] = os.path.realpath(p)          # for links abspath is the target's path (recorded finding F50)
            if stat.S_ISDIR(ls.st_mode):
                exp["is_empty"] = "true" if not os.listdir(p) else "false"
            elif not islnk:
                exp["is_empty"] = "true" if ls.st_size == 0 else "false"
            for k, exts in lists.items():
                if k in cols:
                    exp[k] = "true" if any(name.lower().endswith(e) for e in exts) else "false"
                    st.setdefault("ext_obs", []).append((name, k, None, v.get(k)))
            if stat.S_ISREG(ls.st_mode):
                data = open(p, "rb").read()
                exp.update(sha1=hashlib.sha1(data).hexdigest(), sha256=hashlib.sha256(data).hexdigest(), sha512=hashlib.sha512(data).hexdigest(),
                           sha3=hashlib.sha3_512(data).hexdigest(), line_count=str(data.count(b"\n")), is_shebang="true" if data[:2] == b"#!" else "false",
                           has_xattrs="true" if p in xattr_paths else "false")
            elif stat.S_ISDIR(ls.st_mode):
                exp.update(sha1="", sha256="", line_count="", is_shebang="false")
            elif islnk and os.path.isfile(p) and os.path.dirname(os.path.realpath(p)).startswith(os.path.realpath(ctx.scratch)):
                data = open(p, "rb").read()          # through the link(s)
                exp.update(sha1=hashlib.sha1(data).hexdigest(), sha256=hashlib.sha256(data).hexdigest(), line_count=str(data.count(b"\n")),
                           is_shebang="true" if data[:2] == b"#!" else "false")
            bad = [(k, v[k], e) for k, e in exp.items() if v.get(k) != e]
            if bad:
                ctx.violation("impl-violates-spec", "entry %r: column %s is %r, the operating system says %r" % (v["path"], bad[0][0], bad[0][1], bad[0][2]), input=case, all_mismatches=bad[:6])
                good = False
                break
            st["distinct"].add((name, ls.st_size, ls.st_mode))
            if len(st["samples"]) < 2 and stat.S_ISREG(ls.st_mode) and ls.st_size:
                st["samples"].append({"path": v["path"], "size": v["size"], "sha1": v["sha1"], "line_count": v["line_count"], "ext": v["ext"], "modified": v["modified"]})
        if good:
            st["ok"] += len(rows)
        # the same metadata columns under the root option `symlinks`: an entry that is a link still reports ITS OWN lstat
        # attributes (following links decides what is entered, not what an entry is)
        scols = ["path", "size", "mode", "is_symlink", "is_file", "is_dir", "inode", "hardlinks", "uid", "gid"]
        srows, sr = qlib.select(ctx.impl, ", ".join(scols), "from %s symlinks" % os.path.basename(root), cwd=ctx.scratch)
        st["n"] += 1
        scase = {"tree": root, "query": sr["query"]}
        if srows is None or sr["status"] != 0:
            ctx.violation("impl-violates-spec", "column query with `symlinks` failed: status %s stderr %r" % (sr["status"], sr["stderr"][:200]), input=scase)
        else:
            for row in srows:
                v = dict(zip(scols, row))
                try:
                    ls = os.lstat(os.path.join(ctx.scratch, v["path"]))
                except OSError:
                    continue
                exp = {"size": str(ls.st_size), "mode": stat.filemode(ls.st_mode), "is_symlink": "true" if stat.S_ISLNK(ls.st_mode) else "false", "is_file": "true" if stat.S_ISREG(ls.st_mode) else "false",
                       "is_dir": "true" if stat.S_ISDIR(ls.st_mode) else "false", "inode": str(ls.st_ino), "hardlinks": str(ls.st_nlink), "uid": str(ls.st_uid), "gid": str(ls.st_gid)}
                bad = [(k, v[k], e) for k, e in exp.items() if v[k] != e]
                if bad:
                    ctx.violation("impl-violates-spec", "with `symlinks`, entry %r: column %s is %r, lstat says %r" % (v["path"], bad[0][0], bad[0][1], bad[0][2]), input=scase, all_mismatches=bad[:6])
                    break
            else:
                st["ok"] += len(srows)
    # extension classes under a configuration file that overrides each list
    home = os.path.join(ctx.scratch, "cfg_home")
    os.makedirs(os.path.join(home, ".config", "fselect"))
    # lists with plain, compound (.tar.q3) and dot-less (makefile3) endings: "ends with", not "extension equals"
    over = {k: [".q%d" % i, ".zip", ".tar.q%d" % i, "makefile%d" % i, ".d.ts"] for i, k in enumerate(lists) if k != "is_zip_archive"}
    with open(os.path.join(home, ".config", "fselect", "config.toml"), "w") as f:
        for k, vv in over.items():
            f.write("%s = [%s]\n" % (k, ", ".join('"%s"' % x for x in vv)))
    d = os.path.join(ctx.scratch, "cfgdir")
    os.mkdir(d)
    names = ["a.q0", "b.Q1", "c.zip", "d.mp3", "e.rs", "f.q5", "g.pdf", "noext", ".q2", "x.tar.q0", "y.TAR.Q3", "z.tar.q9x", "Makefile0", "gnumakefile4", "makefile5.bak", "types.d.ts", "d.ts",
             "tar.q1", "w.tar.q2", "makefile7"]
    for nme in names:
        open(os.path.join(d, nme), "w").close()
    ccols = [k for k in over]
    rows, r = qlib.select(ctx.impl, "name, " + ", ".join(ccols), "from cfgdir", cwd=ctx.scratch, env={"HOME": home, "XDG_CONFIG_HOME": os.path.join(home, ".config")})
    st["n"] += 1
    if rows is None:
        ctx.violation("impl-violates-spec", "config override query failed: %r" % r["stderr"][:200], input={"query": r["query"]})
    else:
        for row in rows:
            for k, got in zip(ccols, row[1:]):
                want = "true" if any(row[0].lower().endswith(e) for e in over[k]) else "false"
                st.setdefault("ext_obs", []).append((row[0], k, over[k], got))
                if got != want:
                    ctx.violation("impl-violates-spec", "with the list %s = %s in the configuration, %s of %r is %s" % (k, over[k], k, row[0], got), input={"query": r["query"], "config": over})
                    break
        st["ok"] += len(rows)
    # CONTAINS(s): whether the text of the file contains s - needles inside a line, across a line break (LF and CRLF), empty,
    # absent; files that are empty, multi-line, larger than one buffer, without a trailing newline, not valid UTF-8
    cd_ = os.path.join(ctx.scratch, "contains")
    os.mkdir(cd_)
    texts = {"multi.txt": "alpha\nbeta\ngamma", "crlf.txt": "one\r\ntwo\r\n", "empty": "", "blank.txt": "a\n\nb", "big.txt": ("x" * 70 + "\n") * 1200 + "needle at the end",
             "uni.txt": "h\u00e9llo w\u00f6rld\nline", "single": "no newline here"}
    for nm, tx in texts.items():
        with open(os.path.join(cd_, nm), "wb") as f:
            f.write(tx.encode("utf-8"))
    with open(os.path.join(cd_, "binary"), "wb") as f:
        f.write(b"\xff\xfe\x00abc")
    needles = ["alpha", "beta\ngamma", "alpha\nbeta", "a\n\nb", "\n\n", "one\r\ntwo", "two\r", "needle at the end", "x\nx", "w\u00f6rld\nli", "zzz", "no newline", "e\nl"]
    for nd in (needles if ctx.tier == "thorough" else rng.sample(needles, 7) + ["alpha\nbeta"]):
        if qlib.quote(nd) is None:
            continue
        rows, r = qlib.select(ctx.impl, "name, contains(%s)" % qlib.quote(nd), "from contains", cwd=ctx.scratch)
        st["n"] += 1
        if rows is None:
            ctx.violation("impl-violates-spec", "contains query failed: %r" % r["stderr"][:200], input={"query": r["query"]})
            continue
        for nm, got in rows:
            want = "" if nm == "binary" else ("true" if nd in texts[nm] else "false")
            if got != want:
                ctx.violation("impl-violates-spec", "CONTAINS(%r) of %s is %r, the text %s it" % (nd, nm, got, "contains" if want == "true" else "does not contain"), input={"query": r["query"], "file": nm})
                break
        else:
            st["ok"] += len(rows)
    # file capabilities: the column and the two functions against getcap (the kernel's view through libcap's own tool)
    import shutil as _sh
    import subprocess as _sp
    if _sh.which("setcap") and _sh.which("getcap"):
        CAPS = ["cap_chown", "cap_dac_override", "cap_dac_read_search", "cap_fowner", "cap_fsetid", "cap_kill", "cap_setgid", "cap_setuid", "cap_setpcap", "cap_linux_immutable", "cap_net_bind_service",
                "cap_net_broadcast", "cap_net_admin", "cap_net_raw", "cap_ipc_lock", "cap_ipc_owner", "cap_sys_module", "cap_sys_rawio", "cap_sys_chroot", "cap_sys_ptrace", "cap_sys_pacct", "cap_sys_admin",
                "cap_sys_boot", "cap_sys_nice", "cap_sys_resource", "cap_sys_time", "cap_sys_tty_config", "cap_mknod", "cap_lease", "cap_audit_write", "cap_audit_control", "cap_setfcap", "cap_mac_override",
                "cap_mac_admin", "cap_syslog", "cap_wake_alarm", "cap_block_suspend", "cap_audit_read", "cap_perfmon", "cap_bpf", "cap_checkpoint_restore"]
        FLAGS = ["p", "ep", "ei", "eip", "i", "ip"]
        capd = os.path.join(ctx.scratch, "capdir")
        os.mkdir(capd)
        combos = [(c_, f_) for c_ in CAPS for f_ in FLAGS]
        if ctx.tier == "quick":
            combos = rng.sample(combos, 24)
        made = {}
        for i_, (c_, f_) in enumerate(combos):
            fn = os.path.join(capd, "c%03d" % i_)
            open(fn, "w").close()
            spec = "%s+%s" % (c_, f_)
            if i_ % 5 == 4:
                c2 = rng.choice([x for x in CAPS if x != c_])
                spec = "%s,%s+%s" % (c_, c2, f_)
            # every third file in the namespaced form of the attribute (revision 3: the same sets plus the id of a user-namespace root)
            cmd_ = ["setcap", "-n", str(rng.choice([1000, 65534, 100000])), spec, fn] if i_ % 3 == 2 else ["setcap", spec, fn]
            if _sp.run(cmd_, stdout=_sp.PIPE, stderr=_sp.PIPE).returncode == 0:
                made[os.path.basename(fn)] = " ".join(cmd_[1:-1])
        open(os.path.join(capd, "plain"), "w").close()

        def capset(text):
            out = {}
            for grp in text.split():
                if grp.startswith("["):          # `[rootid=1000]`: the namespace the set belongs to
                    continue
                m_ = re.match(r"^([a-z_,0-9]+)[=+]([eip]+)$", grp)
                if not m_:
                    return None
                for nm_ in m_.group(1).split(","):
                    out[nm_] = "".join(sorted(m_.group(2)))
            return out

        import re
        gc = _sp.run(["getcap", "-r", capd], stdout=_sp.PIPE).stdout.decode()
        want = {}
        for line in gc.splitlines():
            pth, _, txt = line.partition(" ")
            want[os.path.basename(pth)] = capset(txt.strip().lstrip("= "))
        probe = rng.choice(CAPS)
        rows, r = qlib.select(ctx.impl, "name, capabilities, has_capabilities(), has_capability('%s')" % probe, "from capdir", cwd=ctx.scratch)
        st["n"] += 1
        if rows is None:
            ctx.violation("impl-violates-spec", "capabilities query failed: %r" % r["stderr"][:200], input={"query": r["query"]})
        else:
            for nm, capstxt, hasany, hasp in rows:
                exp = want.get(nm, {})
                got = capset(capstxt) if capstxt else {}
                if got != exp or hasany != ("true" if exp else "false") or (exp and hasp != ("true" if probe in exp else "false")):
                    ctx.violation("impl-violates-spec", "capabilities of %s (setcap %s): column %r, has_capabilities %s, has_capability(%s) %s; getcap says %s" % (nm, made.get(nm), capstxt, hasany, probe, hasp, exp),
                                  input={"query": r["query"], "setcap": made.get(nm)})
                    break
            else:
                st["ok"] += len(rows)
                st["capability_files"] = len(made)
    # correspondence: the same verdicts from util::has_extension and the default lists as regenerated from the source (gen/ExtGen.v)
    from .common import coq_eval, gstr, glist, parse_nested
    obs = [o for o in st.get("ext_obs", []) if all(ord(c) < 0x110000 for c in o[0])]
    seen, uniq = set(), []
    for o in obs:
        key = (o[0], o[1], None if o[2] is None else tuple(o[2]))
        if key not in seen and len(uniq) < (400 if ctx.tier == "quick" else 20000):
            seen.add(key)
            uniq.append(o)
    hdr = "From Coq Require Import List NArith Bool.\nFrom FS Require Import lib.Str gen.ExtGen.\nImport ListNotations. Open Scope N_scope.\n"
    exprs = ["(if has_extension %s %s then 1 else 0)" % (gstr(nm), ("default_" + k) if lst is None else glist([gstr(e) for e in lst], "str")) for nm, k, lst, _ in uniq]
    for (nm, k, lst, got), mt in zip(uniq, coq_eval(hdr, exprs, ctx.scratch, tag="c04ext", shard=100)):
        mv = "true" if parse_nested(mt) == 1 else "false"
        if mv != got:
            ctx.violation("correspondence-mismatch", "%s of %r: the binary says %s, has_extension as regenerated from util/mod.rs says %s" % (k, nm, got, mv),
                          input={"name": nm, "column": k, "list": lst or "default"}, concrete=False, correspondence="binary extension classes vs gen.ExtGen.has_extension")
        else:
            st["ext_model_agreed"] = st.get("ext_model_agreed", 0) + 1
    # recorded finding F50
    from .common import load_known
    for k in load_known():
        if k["property"] == "C04" and k["status"] == "known" and k["id"] == "F50":
            dd = os.path.join(ctx.scratch, "f50")
            os.mkdir(dd)
            open(os.path.join(dd, "target.txt"), "w").close()
            os.symlink("target.txt", os.path.join(dd, "lnk"))
            rows, r = qlib.select(ctx.impl, "name, abspath", "from f50 where is_symlink = true", cwd=ctx.scratch)
            if rows and rows[0][1].endswith("target.txt"):
                ctx.known_lines.append("KNOWN-FINDING: property=C04 F50 abspath of a symbolic link is its target's path (canonicalize follows links), so abspath = absdir + '/' + name fails for links")
            else:
                ctx.notes.append("F50: witness no longer fails; update KNOWN_FINDINGS.json")
    return st


def run(ctx):
    ctx.prepare()
    ctx.check_proofs(thorough_clean=False)
    if ctx.tier == "thorough" and not ctx.proof_failure:
        ok, out = ctx.coqchk()
        if not ok:
            ctx.proof_failure = "coqchk failed: " + out[-500:]
    m = run_modes(ctx)
    c = run_columns(ctx)
    ctx.coverage["columns_part"] = dict(queries=c["n"], entries_checked=c["ok"], files_with_capabilities_checked_against_getcap=c.get("capability_files", 0), extension_verdicts_equal_to_regenerated_has_extension=c.get("ext_model_agreed", 0), distinct_entries=len(c["distinct"]), samples=c["samples"],
                                        rule="random trees (files with contents: empty, shebang, no trailing newline, binary, > 64 KiB, 9000 newlines, newline-rich contents of 40 KB - 250 KB whose length is not a multiple of a read block; mtimes incl. 0 and 2038+; owners without a name; xattrs; sockets; links incl. dangling; dot-files, several dots, upper-case extensions) - columns path,name,ext,dir,abspath,absdir,size,uid,gid,user,group,inode,hardlinks,blocks,modified,is_hidden,is_empty, the eight extension classes (default lists read from config.rs, and a configuration file overriding every list with plain, compound and dot-less endings), sha1/sha256/sha512/sha3, line_count, is_shebang, has_xattrs, capabilities / has_capabilities() / has_capability(c) for the 41 Linux capabilities x flag combinations, in the plain and in the namespaced (revision 3) form of the attribute, against getcap, CONTAINS(s) with needles inside a line and across line breaks compared with os.lstat, pwd/grp, hashlib and the directory contents; the metadata columns again under the root option `symlinks` (a link entry keeps its own lstat attributes); the content columns of a link to a regular file (directly or through a second link) are those of the file")
    ctx.coverage.update(
        evaluations=m["evaluations"] + c["ok"], distinct_nontrivial=m["distinct"] + len(c["distinct"]),
        traces_validated_against_impl=m["agreed"],
        rule="one case = one on-disk entry (file types %s x %d permission values incl. suid/sgid/sticky); columns %s of the real binary compared with (a) the Gallina definitions generated from mode.rs evaluated by vm_compute and (b) lstat + ls -l notation; distinct = distinct st_mode values" % (m["kinds"], m["perms"], ",".join(MODE_COLS)),
        samples=m["samples"], exhaustive=(ctx.tier == "thorough"),
        distribution={"kinds": m["kinds"], "permission_values": m["perms"]})
    return ctx.finish(trusted=[
        "std::fs::Metadata::{is_file,is_dir,file_type().is_symlink} modelled as S_IFMT-masked comparisons",
        "lstat(2) as read by Python os.lstat is the oracle for the on-disk mode",
    ])
