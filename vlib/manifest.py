"""Regenerates MANIFEST.json from the table below (python3 -m vlib.manifest)."""
import json
import os

VERIF = os.path.dirname(os.path.dirname(os.path.abspath(__file__)))

CHECKS = {
    "C04": dict(
        technique="Coq proof over definitions regenerated from mode.rs (finite domain 2^16, vm_compute + forallb lifting) + differential test of the binary against the Gallina definitions and lstat",
        text="Theorems C04_mode_string / C04_perm_bits_agree / C04_exactly_one_type are proved for all 65 536 mode values over Gallina definitions that tools/rs2v regenerates from src/mode.rs on every run; C04_extension_class (the is_* classes are `lower-cased name ends with a configured ending`, for every name and list) over util::has_extension and the default lists regenerated from util/mod.rs and config.rs. The binary's mode columns and extension classes are compared on disk with those definitions and with lstat / an independent oracle.",
        note="Partial: digests, owner-name lookup, xattrs and lstat itself are runtime; for them only the on-disk comparison against Python oracles applies. Trusted: Coq kernel + vm_compute, rs2v translator, Python observer (os.lstat).",
        design="6 C04"),
}

CHECKS.update({
    "C01": dict(
        technique="Coq model of Searcher::visit_dir (gates and queue discipline regenerated from searcher.rs) + refinement proofs to a textbook pre-order/level-order listing; differential test of the binary's exact row sequence against the model on generated trees",
        text="The walker is modelled state for state (found, visited_inodes, dir_queue, error_count) in model/Walk.v with its gate expressions regenerated from the source by tools/rs2v; theorems relate it to the window-filtered pre-order / level-order listing for all trees, roots and depth windows. On every run the real binary's row sequence on random trees (all entry kinds, root spellings, windows, bfs/dfs) is compared with the model and with an independent recursive listing. Directory names containing a backslash, roots with a trailing slash and - for the `symlinks` clause - links to directories outside and inside the root (every entry once, by real identity) are part of the generated trees.",
        note="Not verified: canonicalize/read_dir/inode uniqueness (kernel), supplied to the model by the observer. Trusted: Coq kernel, rs2v, Python observer.",
        design="6 C01"),
    "C05": dict(
        technique="Coq proof (permutation + sortedness of the TopN buffer under the Criteria comparator, a proved total preorder) + differential test of the real TopN/Criteria (harness) and of the binary's ORDER BY against the model",
        text="C05_permutation / C05_sorted / C05_cmp_total / C05_cmp_trans hold for every insertion sequence and key list; the real util::TopN<Criteria<String>,String> (through #[path] inclusion) and the binary's ordered output are compared exactly with the model's stable order on generated trees with many ties. Keys include expressions with the number first (`1 + size`), date keys, digit-only names (text order), hard-link counts of several digits; the witnesses of the repaired findings F11 / F12 / F46 are replayed.",
        note="Numeric keys restricted to canonical digit strings in the correspondence; key values themselves are C04's subject. Trusted: Coq kernel, harness, Python generators.",
        design="6 C05"),
    "C06": dict(
        technique="Coq proof that the limited TopN buffer equals firstn n of the unlimited one (all insertion sequences) + exhaustive-over-N differential test of the binary",
        text="C06_topn_prefix is a literal equality proved by induction over the insertion sequence for any comparator; the walker's limit gates are regenerated from the source. For every generated (tree, query) pair every N in 1..M+2 is run on the real binary and compared with the prefix the theorem predicts and with the property's own conditions (count, sub-multiset, key sequence). Grouped queries (LIMIT counts the group rows), archive members, several roots, dfs, and select lists that mention a column only inside a function argument (no LIMIT = every entry) are covered; F67 repaired, F68 recorded.",
        note="Unordered LIMIT relies on getdents order being the same in two runs over an unchanged directory. Trusted: Coq kernel, rs2v, harness.",
        design="6 C06"),
    "C12": dict(
        technique="Coq proof that the regex produced by the (regenerated) glob/LIKE tables, interpreted by a verified derivative matcher, decides the textbook glob/LIKE relation for all patterns and subjects + differential test of the binary's eight string operators",
        text="C12_glob / C12_like hold for every pattern and subject with no side condition (after the fix commits for + { } | \\, LIKE '?', and newline); the matcher is proved correct against its denotational semantics; replacement tables, prefix/suffix and is_glob characters are re-extracted from util/glob.rs on every run. The binary is run on file names over the property's alphabet with derived patterns for all eight operators. Strict operators get wildcard patterns (read literally), patterns with overlapping prefix and suffix, one pattern text under two operator families in one query, and an independent regular-expression engine judges =~ / !=~ on the generated pattern shapes.",
        note="(?i) is ASCII case folding in the model; the regex crate's Unicode simple case folding and regex syntax outside the modelled subset are not covered (patterns outside the subset are counted and skipped). Trusted: Coq kernel, rs2v, lexer quoted-string rule (C11).",
        design="6 C12"),
    "C09": dict(
        technique="Coq round-trip proofs (emit then decode = identity) for JSON, CSV, HTML and the flat formats over emitters whose literals are regenerated from src/output/*.rs + byte-exact differential test of the binary and of ResultsWriter",
        text="C09_json_roundtrip / C09_csv_roundtrip / C09_html_roundtrip / C09_*_roundtrip / C09_formats_agree hold for every table and every value (any code points); decoders are independent Gallina readers (RFC 8259 subset, RFC 4180, the table skeleton with entity unescaping). On every run the binary's six formats over five result paths on adversarial file names are decoded by those decoders, compared with `into list`, and compared byte for byte with the model's emitters.",
        note="serde_json escaping and csv-core quoting are transcribed (validated on every run); values are valid UTF-8. Duplicate select-list keys collapse in JSON (BTreeMap) and are outside the generated queries. Trusted: Coq kernel, rs2v, Python byte/code-point conversion.",
        design="6 C09"),
    "C13": dict(
        technique="Coq proofs over the regenerated DateTime comparison table (interval semantics, trichotomy), a model of parse_datetime with interval theorems for all valid dates, and a calendar proved correct for all of Z + differential test on an mtime grid",
        text="C13_comparisons shows the table extracted from Searcher::conforms equals closed-interval semantics for all eight operators; C13_trichotomy and companions are proved for all t; literal-to-interval theorems hold for every valid date at four precisions and both separators; the calendar round trips hold for every day number. On every run files with mtimes at a-1, a, a+1, b-1, b, b+1 around each literal are queried with all eight operators. The grid includes entry times before 1970 and sub-second parts; relative literals (-N, +N, today, yesterday) are judged against the date read at run time.",
        note="Fixed UTC offset (TZ=UTC); tz database, DST and chrono_english free-form dates are outside the model. The clock is read by the check and passed to the model. Trusted: Coq kernel, rs2v, os.utime/os.lstat.",
        design="6 C13"),
    "C17": dict(
        technique="Coq proofs: fault isolation of the walker model (rows of the faulty run = rows of the fault-free run minus what lies below unlistable directories; one error per such directory) and 'no stdout write site propagates its error' over write sites re-classified from the source on every run + differential test as uid 65534 and pipe-closing at every offset",
        text="C17_isolation (depth-first) and C17_isolation_bfs (breadth-first, the default mode) are proved for every tree and set of unlistable directories over model/Walk.v; C17_pipe_never_panics quantifies over every sequence of writes and every failing write, using the classification (guarded / ignored / propagated) that tools/rs2v recomputes from searcher.rs; statuses come from main.rs. The binary is run as an unprivileged user on trees with unlistable directories and unreadable files, and with the reader closing stdout after k bytes for many k in six formats. Also: aggregates over a column that is empty for an unreadable file, fault-free trees searched with `symlinks` (status 0, empty stderr), failing roots, unopenable archives.",
        note="Partial: which write the kernel fails depends on LineWriter buffering (the theorem covers all); permission semantics are the kernel's (the observer computes listability from mode bits for uid 65534). C17_isolation (dfs) and C17_isolation_bfs are both proved. Opening a FIFO for a content column blocks (F47, known finding) and is excluded.",
        design="6 C17"),
    "C19": dict(
        technique="Coq proofs over the walker model (member rows exactly once after their archive; ordinary rows unchanged; limit gates regenerated from the source) + differential test on generated zip archives incl. corrupt ones",
        text="C19_ordinary_rows_unchanged / C19_members_once / C19_walk / C19_walk_bfs hold for every tree and listing; the member-loop gate is regenerated from searcher.rs. The binary is run on trees with archives written by Python zipfile (all file types and modes, dates in every month, mixed-case extensions, corrupt and truncated archives) and compared with the model row for row and with the stored member attributes. Names that are an extension (`.zip`), links with archive names, mindepth windows and a configuration file without archive settings are part of the scenarios.",
        note="Partial: the zip crate's parser is not modelled; the listing of a readable archive is an input. Trusted: Python zipfile as the oracle of what was stored.",
        design="6 C19"),
    "C02": dict(
        technique="Coq theorems over the typed comparison tables regenerated from Searcher::conforms and over a model of the literal's reading (Variant::to_int: i64, then parse_filesize with the regenerated ladder) + differential test of atomic WHERE conditions against lstat attributes, against those tables and of to_int against the model",
        text="C02_int_literal_with_unit (for every attribute value, operator, integer and documented unit in any spelling, `column OP <integer><unit>` is the numeric comparison with integer x documented multiplier), C02_int_literal_plain / _negative, the Int / Bool / DateTime comparison tables (C02_int_table, C02_bool_table, C02_bool_words, C02_between_inclusive), all over definitions re-extracted from the source on every run; every generated atomic condition (all spellings of the eight comparison operators, unit literals, negative literals, boolean words, BETWEEN, column-vs-column, quoted literals that spell columns / functions / Display texts) is run on the binary and compared with the comparison evaluated on the entry's lstat attributes and with the regenerated tables; Variant::to_int (harness) is compared with model.Conforms.to_int. Also inside the generated domain: LIKE / glob patterns derived from the attribute values (textbook matcher; names with line breaks), date literals of day / hour / minute / second precision, the mode string of every kind of entry (socket, device nodes), line_count over files longer than a read block.",
        note="Partial: Variant coercions (to_int fallbacks) are exercised by the differential test only; negative literals (F43, fixed) and quoted literals that spell a column, a function or the Display text of the left-hand expression (F44, fixed) are inside the generated domain; the empty literal (F45) is a recorded finding. Regular-expression operators are C12's, the date grid C13's.",
        design="6 C02"),
    "C03": dict(
        technique="Coq proofs: negation (operator table regenerated from operators.rs + AND/OR swap) is the complement on every condition tree over well-typed atoms, De Morgan, double negation; and the PARSER theorem: for every formula over AND / OR / NOT / brackets rendered with minimal bracketing, the model of Parser::parse_expr (with the parser's own fuel) returns a tree whose meaning under Searcher::conforms is the formula's Boolean denotation + bounded-exhaustive differential test of result sets",
        text="C03_not_is_complement, C03_double_negation, C03_de_morgan_*, C03_between_*: over Op_negate and the comparison tables as regenerated from the source. C03_parser_boolean_algebra: for EVERY formula (any depth) the parser model - compared with the real parser on every run - yields the Boolean meaning: precedence of AND over OR, brackets, parity of stacked NOTs and the De Morgan push-down of `not (...)`. Every formula shape up to a size bound over three atoms (and random deeper ones) is run on the binary; its result set must equal the Boolean combination of the result sets of its atoms.",
        note="The parser theorem covers atoms `column OP digits` (all operators except BETWEEN) with round brackets at the token level (the lexer maps both bracket styles to the same tokens, C11); BETWEEN desugaring and the infix `not like` are covered by the differential test; the meaning of the atoms themselves is C02's subject.",
        design="6 C03"),
    "C20": dict(
        technique="Coq proof that, for an arbitrary per-entry ignore verdict, the walker returns exactly the entries with no ignored ancestor-or-self + differential test against `git check-ignore` and against reference matchers of Docker's and Mercurial's rules, over root spellings and option/config/no-override",
        text="C20_pruning_spec / C20_pruning_walk / C20_pruning_walk_bfs hold for every tree and every verdict function over model/Walk.v. On every run git repositories, docker build contexts and Mercurial repositories with generated ignore files are searched with the root spelled '.', relative, absolute or as a sub-directory (ignore file in the root or an ancestor), with the option given, taken from the configuration, overridden, or with only another tool enabled; rows must be the entries the tool does not ignore (git check-ignore; direct recursive matchers transcribing moby patternmatcher and hgignore(5)) and must equal the model fed those verdicts.",
        note="Partial: libgit2's matcher is not modelled (verdicts are inputs); the Docker / Mercurial converters (rewritten by fix commits 8f57929, ccd81bf, 554a7aa) are modelled in model/Ignore.v (C20_docker_file, C20_hg_glob_file, C20_hg_regexp_*, C20_directory_path_is_literal hold for every ignore line and path) and compared on every run with the real filters (regex text and verdicts) and with reference matchers written from the tools' documentation. Known finding F53: Docker re-includes an entry below an excluded directory, fselect prunes the directory.",
        design="6 C20"),
    "C10": dict(
        technique="Coq model of the lexer and the recursive-descent parser (tables regenerated from the source) with PROVED totality: the lexer's iteration bound and, for every token list and argument vector, the parser ends in a query or a status-2 diagnostic - never a panic site, never out of its own fuel + differential test of outcome, error message and whole AST against the real lexer/parser, and of exit status / panic / hang on the binary",
        text="C10_lexer_total bounds the lexer's iterations for every argument vector; C10_parser_total / C10_parser_total_tokens / C10_parse_expr_total: model/Parser.v mirrors parser.rs with every unwrap / index / underflow as an explicit Panic outcome and loops on fuel, and for EVERY input the outcome is Ok or Exit2 (weakest-precondition proof, fuel linear in the remaining tokens). On every run thousands of argument vectors (valid queries, token soups, mutations, every function with bad arguments, bad literals incl. the former crash inputs) are run through the real lexer+parser and compared with the model, and through the binary: status 0, 1 or 2 within 10 s, no panic text, no row after a parse-time rejection. The vector pool also holds arithmetic over zero divisors and i64 extremes, impossible date literals wherever a date is read, aggregates over NaN / infinite / text values, and ORDER BY x LIMIT n over every arrival order of the tree.",
        note="Partial: the machine stack is not modelled (known finding F51: nesting thousands of levels deep overflows it); evaluation-time aborts (function arguments, literals) are covered by the models of C13/C16 (parse_datetime_never_panics, wrong_kind_never_panics) and on the binary; the `~` root path is unmodelled.",
        design="6 C10"),
    "C07": dict(
        technique="Coq model of get_aggregate_value (f64 via primitive floats, integer parts in Z) with exactness theorems for COUNT/SUM/MIN/MAX and the textbook-variance theorem in Q + differential test of aggregate queries against exact rational arithmetic",
        text="count/sum/min/max theorems hold for every buffer of canonical integers (overflow stated), the variance loop is proved equal to the textbook formula in exact arithmetic; every generated aggregate query (all nine functions and spellings, five numeric columns, WHERE filters, 0/1/2/many rows) is compared with exact values computed from the same query without aggregates. One directory of about 520 sparse files adds up to more than 2^53 (SUM stays exact).",
        note="f64 rounding of AVG/VAR/STDDEV is compared with a 1e-11 relative tolerance on the binary and bit-exactly through the harness; no error-bound theorem for the float results.",
        design="6 C07"),
    "C08": dict(
        technique="Coq proofs of the partition laws for the model of partition_output_buffer (distinct keys, non-empty groups, membership, permutation, group = restriction, conservation of COUNT and SUM) + differential test of grouped queries against exact per-group arithmetic and the binary's own ungrouped run",
        text="C08_keys_distinct / C08_groups_nonempty / C08_member_has_group_key / C08_partition / C08_group_is_restriction / C08_conservation hold for every buffer and key list; C08_order_groups: ordered by the Criteria comparator the group rows are a sorted permutation, for every key list (the comparator the repaired code uses, and the one the ordered rows of the binary are judged by on every run); every generated grouped query is compared with groups and exact aggregates computed from the same query without aggregates, with the ungrouped COUNT/SUM of the binary, and with the requested order.",
        note="HashMap order is unspecified: group rows are compared as a set unless ORDER BY is given; ORDER BY on keys, on aggregates (by name or position) and on keys / aggregates that are not selected is judged with the typed comparison of ungrouped rows (F14 / F15, repaired by 37c6ae7; their witnesses are replayed).",
        design="6 C08"),
    "C11": dict(
        technique="Coq proofs over tables regenerated from the source and alias groups regenerated from docs/usage.md (every documented alias resolves to one constructor and lexes as the right token class; name lookups are invariant under any re-casing, for all strings) + differential test of parsed queries and rows across renderings",
        text="C11_doc_*_aliases / C11_doc_*_lex are decided by computation over the regenerated tables and the lexer model; C11_case_insensitive is proved for every string and re-casing function. On every run generated valid queries are rendered with every alias of every aliased token, case variants of every word, both bracket styles, optional tokens, full and partial argument splits; the real parser's Query and the binary's output must be identical to the canonical rendering's. Always run on the binary: with / without the leading `select`, every alias of the safe columns as the first word of the command line, argument-less functions bare / `()` / `{}` next to an arithmetic symbol, and queries that mention the program's own option words (F66, repaired).",
        note="Known finding F23: with several arguments the search root extends to the end of its argument, so partial splits that leave words after the root in the same argument change the query; the generator keeps the root alone in its argument and the witness is replayed. Unicode lower-casing of keywords is modelled as ASCII (+ Kelvin sign).",
        design="6 C11"),
    "C14": dict(
        technique="Coq model of parse_filesize (ladder regenerated from util/mod.rs) and of format_filesize / humansize with binary64 arithmetic in Z (round-to-nearest-even proved) + theorems against the documented unit table + exact differential test of the real functions against the model and documentation-level oracles on the real functions and the binary",
        text="C14_ladder_is_the_documented_table (the regenerated ladder reaches every documented unit with its documented multiplier, without shadowing, and has no other unit), C14_units_exact (every integer x every unit spelling below 2^53), C14_fraction_exact (dyadic fractions: floor(number x multiplier)), C14_format_documented_examples (the fifteen documented rows), C14_format_monotone (EVERY pair of u64 sizes, across unit boundaries), C14_format_roundtrip (every size below 2^50 = 1 PiB, the bound sharp: parse_filesize has no unit above TiB), C14_format_accuracy (every u64: half a unit of the last digit plus the u64->binary64 conversion error, which is 0 below 2^53) with the refutation of half-a-unit-alone at 9046605751480483 bytes, C14_rounding_is_nearest_even. On every run: literals through the real parse_filesize vs number x documented multiplier; `size OP literal` on boundary sizes on the binary; FORMAT_SIZE specifiers judged from the documented grammar (unit, space, decimals, value, short flag); monotone / reads-back on random sizes; model.Size = real functions exactly.",
        note="Monotonicity / read-back / accuracy are proved for the default rendering (specifier ''), the other specifiers are differential tests; beyond 2^53 a literal loses low bits in binary64 (units_exact_bound_sharp); rendering uses PiB/EiB which literals cannot express; specifiers the documentation does not describe are compared with the model only. Trusted: humansize 2.1.3 transcription (validated every run), SoftF64 parse/print of decimal texts (differentially tested).",
        design="6 C14"),
    "C15": dict(
        technique="Coq proofs over the model of the parser and of the Display text of expressions: for EVERY arithmetic expression (numbers, columns, leading minus, + - * / %), rendering with exactly the brackets the documented precedence/associativity requires and parsing with the model of Parser::parse_add_sub (parser's own fuel) returns that very tree; the Display text that keys the per-row value cache is injective on such expressions + executable model of the whole pipeline with witnesses + differential test of select lists and WHERE expressions",
        text="C15_parser_precedence_assoc (all expressions, any position in any token list), C15_cache_key_injective / C15_cache_key_readable (two different expressions never share a cache slot), C15_operator_table (ArithmeticOp::calc as regenerated), C15_parse_witnesses (through lexer, parser and evaluator). On every run random expressions to depth 4 in select lists of 1-5 columns are evaluated by the binary and compared with binary64 arithmetic (oracle), with the same column selected alone, and with the model pipeline; WHERE on expressions likewise. WHERE with two comparisons over one expression (AND / OR / BETWEEN) is covered; F61 and F65 are recorded findings.",
        note="Function calls, quoted strings and the word operators (plus, mul, ...) are outside the rendered language of the round-trip theorem (covered by the differential test). f64 % is C fmod, computed exactly in the model (lib/F64.fmod). Literals are plain numbers (unit literals inside arithmetic go through parse_filesize, C14).",
        design="6 C15"),
    "C16": dict(
        technique="Coq model of function::get_value (model/Funcs.v; UTF-8, base64, Unicode White_Space, case tables read off the real code) with per-function theorems against a documentation-level spec (spec/FuncsSpec.v) for every argument string, and a proved no-crash theorem + differential test of the real get_value against the model and against an independent Python oracle, and of nested calls on the binary",
        text="40 theorems (props/C16.v): LENGTH counts characters; TRIM/LTRIM/RTRIM remove exactly the Unicode White_Space; SUBSTR equals the 1-based / from-the-end spec for every i32 position; REPLACE is leftmost non-overlapping replacement; TO_BASE64 is RFC 4648 of the UTF-8 bytes and FROM_BASE64 inverts it on every text; BIN/HEX/OCT are the positional numerals of z mod 2^64; LEAST/GREATEST bounds; FORMAT_TIME units; YEAR/MONTH/DAY/DOW on canonical dates; wrong_kind_never_panics for every function and argument. On every run the real get_value is compared call by call with the model (outcome class, type, text, diagnostic), with a Python oracle, and compositions to depth 3 on the binary. Empty needles of REPLACE, NaN arguments of LEAST / GREATEST, zero for BIN / OCT / HEX and month-end dates are in the call pools.",
        note="Unmodelled (hooks in the model, counted and skipped in the comparison): libm pow/ln/exp outside exact cases, case mapping outside ASCII/Latin-1/Ext-A/Greek/Cyrillic/caseless ranges and the Final_Sigma rule, chrono_english free-form dates. abs_nonneg and least_greatest_bounds use the standard library's FloatAxioms (abs_spec, ltb_spec) for the kernel's primitive floats. SUBSTR length 0 means `to the end` and POWER without exponent returns 1 (kept visible as theorems).",
        design="6 C16"),
    "C18": dict(
        technique="Coq proofs over an executable graph model of visit_dir with the symlinks option (visited_dirs, visited_inodes keyed by the target's inode, gates regenerated from the source): termination for EVERY graph with an explicit fuel bound, one traversal per real directory, exactly the reachable directories, every entry reported once + differential test on link-decorated trees incl. cycles, chains, mutual and self links",
        text="C18_terminates / C18_fuel_irrelevant (any graph, gates, order, limit), C18_once (no inode marked twice, no directory read twice), C18_only_reachable, C18_exactly_the_reachable_directories (no depth limit), C18_rows (rows = permutation of the listings of the directories read). On every run trees decorated with links of every kind are searched with and without the option, bfs and dfs: status 0, every (reachable real directory, entry) pair exactly once, nothing from behind a link without the option, exactly the model's row sequence on the observed graph - the model run with the theorem's own fuel bound, the observed graph tested for the theorem's hypothesis wf_graph. Windows mindepth 0-2 x maxdepth 0/2/3, roots deeper than the directories links lead to, and rings of links at the edge of the window are generated; under a window the plain rows must still all appear, none twice.",
        note="Completeness needs path_functional (a spelled path names one directory), true of a real file system but not tested per case; the depth window behind followed links is computed from canonical paths by the source and only reproduced, not specified.",
        design="6 C18"),
})

ALL = ["C%02d" % i for i in range(1, 21)]


def main():
    checks = []
    for pid in ALL:
        if pid not in CHECKS:
            continue
        c = CHECKS[pid]
        checks.append({
            "property_id": pid,
            "quick_cmd": "./check %s --tier quick" % pid,
            "thorough_cmd": "./check %s --tier thorough" % pid,
            "evidence_file": "evidence/%s.json" % pid,
            "replay_cmd_template": "./check %s --replay {path}" % pid,
            "engine": "coq-model+correspondence",
            "level_claimed": {"category": "proof", "text": c["text"], "design_ref": c["design"]},
            "level_note": c["note"],
            "technique": c["technique"],
        })
    na = [{"property_id": p, "reason": "check not built yet in this round (planned: Coq model + correspondence, see DESIGN.md section 6)"}
          for p in ALL if p not in CHECKS]
    m = {
        "version": 1,
        "setup_cmd": "./check --setup",
        "hooks": {"guard": "fselect_verif", "enable": "RUSTFLAGS=\"--cfg fselect_verif\" cargo build --offline (no hook is needed so far: observation is through the unmodified binary and #[path] inclusion)",
                  "baseline_off_cmd": "cd /repo && cargo test --workspace --no-fail-fast --offline",
                  "source_commits": [], "add_only": True},
        "engines": [{"name": "coq-model+correspondence", "path": "check", "serves_properties": [c["property_id"] for c in checks],
                     "kind_free_text": "Coq 8.16 theorems over generated (tools/rs2v) and hand-written Gallina models; differential testing of the real binary against the models evaluated by coqc"}],
        "checks": checks,
        "not_applicable": na,
        "notes": "See DESIGN.md. KNOWN_FINDINGS.json lists genuine defects (known / fixed).",
    }
    with open(os.path.join(VERIF, "MANIFEST.json"), "w") as f:
        json.dump(m, f, indent=1)


if __name__ == "__main__":
    main()
