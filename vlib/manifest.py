"""Regenerates MANIFEST.json from the table below (python3 -m vlib.manifest)."""
import json
import os

VERIF = os.path.dirname(os.path.dirname(os.path.abspath(__file__)))

CHECKS = {
    "C04": dict(
        technique="Coq proof over definitions regenerated from mode.rs (finite domain 2^16, vm_compute + forallb lifting) + differential test of the binary against the Gallina definitions and lstat",
        text="Theorems C04_mode_string / C04_perm_bits_agree / C04_exactly_one_type are proved for all 65 536 mode values over Gallina definitions that tools/rs2v regenerates from src/mode.rs on every run; the binary's mode columns are compared on disk (every creatable file type x permission values) with those definitions and with lstat.",
        note="Partial: digests, owner-name lookup, xattrs and lstat itself are runtime; for them only the on-disk comparison against Python oracles applies. Trusted: Coq kernel + vm_compute, rs2v translator, Python observer (os.lstat).",
        design="6 C04"),
}

ALL = ["C%02d" % i for i in range(1, 21)]


def main():
    checks = []
    for pid in ALL:
        if pid not in CHECKS:
            continue
        c = CHECKS[pid]
        checks.append({
            "property_id": pid,
            "quick_cmd": "./check %s --tier quick" % pid,
            "thorough_cmd": "./check %s --tier thorough" % pid,
            "evidence_file": "evidence/%s.json" % pid,
            "replay_cmd_template": "./check %s --replay {path}" % pid,
            "engine": "coq-model+correspondence",
            "level_claimed": {"category": "proof", "text": c["text"], "design_ref": c["design"]},
            "level_note": c["note"],
            "technique": c["technique"],
        })
    na = [{"property_id": p, "reason": "check not built yet in this round (planned: Coq model + correspondence, see DESIGN.md section 6)"}
          for p in ALL if p not in CHECKS]
    m = {
        "version": 1,
        "setup_cmd": "./check --setup",
        "hooks": {"guard": "fselect_verif", "enable": "RUSTFLAGS=\"--cfg fselect_verif\" cargo build --offline (no hook is needed so far: observation is through the unmodified binary and #[path] inclusion)",
                  "baseline_off_cmd": "cd /repo && cargo test --workspace --no-fail-fast --offline",
                  "source_commits": [], "add_only": True},
        "engines": [{"name": "coq-model+correspondence", "path": "check", "serves_properties": [c["property_id"] for c in checks],
                     "kind_free_text": "Coq 8.16 theorems over generated (tools/rs2v) and hand-written Gallina models; differential testing of the real binary against the models evaluated by coqc"}],
        "checks": checks,
        "not_applicable": na,
        "notes": "See DESIGN.md. KNOWN_FINDINGS.json lists genuine defects (known / fixed).",
    }
    with open(os.path.join(VERIF, "MANIFEST.json"), "w") as f:
        json.dump(m, f, indent=1)


if __name__ == "__main__":
    main()
