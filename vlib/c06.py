"""C06 — LIMIT N returns min(N, matches) rows, and with ORDER BY the true top N."""
import collections
import os

from . import orderlib, qlib
from .common import pmap


def run(ctx):
    ctx.prepare()
    ctx.check_proofs()
    if ctx.tier == "thorough" and not ctx.proof_failure:
        ok, out = ctx.coqchk()
        if not ok:
            ctx.proof_failure = "coqchk failed: " + out[-500:]
    n_h, n_b = (200, 36) if ctx.tier == "quick" else (4000, 600)
    st = dict(evaluations=0, agreed=0, distinct=set(), samples=[], hist=collections.Counter())
    # harness level: limited TopN = prefix of unlimited TopN, on the real code
    try:
        hc = orderlib.harness_topn_cases(ctx, n_h)
    except Exception as e:
        ctx.notes.append("harness: fallback-binary-only (%s)" % str(e)[:200])
        ctx.violation("correspondence-mismatch", "the real functions could not be reached through the harness (#[path] inclusion of /repo/src): %s" % str(e)[:300], input={}, concrete=False,
                      correspondence="harness build / run")
        hc = []
    for c in hc:
        st["evaluations"] += 1
        r = c["result"]
        case = {"harness": c["request"]}
        if "r" not in r:
            ctx.violation("impl-violates-spec", "TopN/Criteria aborted: %s" % r, input=case)
            continue
        vals = r["r"]["values"]
        n_ins = len(c["request"]["inserts"])
        if c["lim"] and len(vals) != min(c["lim"], n_ins):
            ctx.violation("impl-violates-spec", "TopN with limit %d holds %d of %d values" % (c["lim"], len(vals), n_ins), input=case, observed=vals)
        if vals != c["model"]:
            ctx.violation("correspondence-mismatch", "TopN.values() differs from the model", input=case, observed=vals, model=c["model"],
                          concrete=False, correspondence="harness TopN<Criteria> vs model.TopN.run")
        else:
            st["agreed"] += 1
        if c["lim"] and n_ins > c["lim"]:
            st["distinct"].add(("h", str(c["request"])))
    # binary level: every N in 1..M+2 for each (tree, query)
    cases = orderlib.run_binary_cases(ctx, n_b, ctx.tier == "thorough")
    jobs = []
    for c in cases:
        rows0, rows1 = c["rows0"], c["rows1"]
        if rows0 is None or rows1 is None:
            ctx.violation("impl-violates-spec", "query failed", input={"q0": c["q0"], "q1": c["q1"]})
            continue
        m = len(rows0)
        tail = c["tail"]          # the same FROM clause (possibly several roots) as the unlimited runs
        for n in list(range(1, min(m, 40) + 3)) + [0]:
            jobs.append((c, n, True, tail))
            jobs.append((c, n, False, tail))

    def one(job):
        c, n, ordered, tail = job
        cols = ", ".join(c["selected"]) if ordered else "path, " + ", ".join(k for k, _ in c["keys"])
        t = tail + ((" order by " + c["order"]) if ordered else "") + " limit %d" % n
        rows, r = qlib.select(ctx.impl, cols, t, cwd=ctx.scratch)
        return job, rows, r

    for (c, n, ordered, tail), rows, r in pmap(one, jobs):
        st["evaluations"] += 1
        full = c["rows1"] if ordered else c["rows0"]
        m = len(full)
        case = {"tree": c["root"], "query": r["query"], "unlimited_rows": m}
        if rows is None or r["status"] != 0:
            ctx.violation("impl-violates-spec", "limited query failed: status %s stderr %r" % (r["status"], r["stderr"][:200]), input=case)
            continue
        want = m if n == 0 else min(n, m)
        if len(rows) != want:
            ctx.violation("impl-violates-spec", "limit %d returned %d rows, unlimited query returns %d" % (n, len(rows), m), input=case, observed=rows[:10])
            continue
        cnt_full = collections.Counter(full)
        cnt = collections.Counter(rows)
        if any(cnt[k] > cnt_full[k] for k in cnt):
            ctx.violation("impl-violates-spec", "limited rows are not a sub-multiset of the unlimited rows", input=case, observed=rows[:10])
            continue
        if ordered:
            keyof = {r0[0]: r0[1:] for r0 in c["rows0"]}
            ks = [keyof.get(r1[0]) for r1 in rows]
            ks_full = [keyof.get(r1[0]) for r1 in full[:len(rows)]]
            if ks != ks_full:
                ctx.violation("impl-violates-spec", "key sequence under limit %d differs from the first keys of the full sort" % n, input=case,
                              observed=ks[:8], expected=ks_full[:8])
                continue
        # the model (C06_topn_prefix / walker prefix): literal prefix
        if rows != full[:len(rows)]:
            ctx.violation("correspondence-mismatch", "limited rows are not the literal prefix the model predicts", input=case,
                          observed=rows[:8], model=full[:8], concrete=False,
                          correspondence="binary LIMIT vs firstn n (unlimited)  [C06_topn_prefix / C06_unordered_prefix]")
        else:
            st["agreed"] += 1
        if 0 < n < m:
            st["distinct"].add((r["query"], c["root"]))
        st["hist"]["ordered" if ordered else "unordered"] += 1
        st["hist"]["cut_%s" % ("inside" if 0 < n < m else "at_end" if n == m else "beyond" if n > m else "zero")] += 1
        if len(st["samples"]) < 4 and 1 < n < m and ordered:
            st["samples"].append({"query": r["query"], "rows": [list(x) for x in rows[:5]], "unlimited_first": [list(x) for x in full[:6]]})
    # ---- archives: members count towards LIMIT like ordinary rows, filtered or not, ordered or not ----
    from . import c19, fstree
    ajobs = []
    for i in range(16 if ctx.tier == "quick" else 160):
        root, zips, corrupts = c19.gen_case(ctx, 1000 + i)
        rb = os.path.basename(root)
        for where in ("", "where size > 5", "where name like '%a%'", "where size < 100", "where size = 0", "where size >= 300"):
            for ob in ("", " order by size, path"):
                ajobs.append((rb, where, ob))

    def aone(job):
        rb, where, ob = job
        full, r0 = qlib.select(ctx.impl, "path, size", "from %s archives %s%s" % (rb, where, ob), cwd=ctx.scratch)
        outs = []
        if full is not None:
            for n in list(range(1, min(len(full), 25) + 3)):
                rows, r = qlib.select(ctx.impl, "path, size", "from %s archives %s%s limit %d" % (rb, where, ob, n), cwd=ctx.scratch)
                outs.append((n, rows, r))
        return job, full, r0, outs

    for (rb, where, ob), full, r0, outs in pmap(aone, ajobs):
        if full is None:
            ctx.violation("impl-violates-spec", "archive query failed: %r" % r0["stderr"][:160], input={"query": r0["query"]})
            continue
        for n, rows, r in outs:
            st["evaluations"] += 1
            case = {"tree": rb, "query": r["query"], "unlimited_rows": len(full)}
            if rows is None or len(rows) != min(n, len(full)):
                ctx.violation("impl-violates-spec", "with archives, limit %d returned %s rows; the unlimited query returns %d" % (n, None if rows is None else len(rows), len(full)), input=case)
                break
            if ob and [x[1] for x in rows] != [x[1] for x in full[:len(rows)]]:
                ctx.violation("impl-violates-spec", "with archives, the keys under limit %d are not the first keys of the full sort" % n, input=case)
                break
            if rows != full[:len(rows)]:
                ctx.violation("correspondence-mismatch", "with archives, limited rows are not the literal prefix the model predicts", input=case, observed=rows[:6], model=full[:6], concrete=False,
                              correspondence="binary LIMIT over archive members vs firstn n (unlimited) [C06_unordered_prefix / C06_buffered_sees_every_candidate]")
                break
            st["agreed"] += 1
            if 0 < n < len(full):
                st["distinct"].add(r["query"])
            st["hist"]["archives_" + ("ordered" if ob else "unordered")] += 1
    # ---- "an absent limit or `limit 0` means unlimited": select lists whose only mention of a column sits in a function argument
    #      (first, second or later), in an operand, behind a minus - the query without LIMIT returns one row per matching entry ----
    sel_lists = ["concat('f:', name)", "concat_ws('-', name, size)", "coalesce('', name)", "concat(name, ':f')", "upper(name)", "2 * size", "-size", "least(0, size)", "substr(name, 1, 2)",
                 "concat('a', 'b', name)", "replace('xyz', 'y', ext)", "length(name) + 0", "power(2, hardlinks)", "format_size(size, '%.0')", "concat_ws(name, 'a', 'b')"]
    ujobs = [(c["tail"], s_) for c in cases[: (6 if ctx.tier == "quick" else 60)] for s_ in sel_lists]

    def uone(job):
        tail, s_ = job
        base_rows, r0 = qlib.select(ctx.impl, "name", tail, cwd=ctx.scratch, ncols=1)
        rows, r = qlib.select(ctx.impl, s_, tail, cwd=ctx.scratch, ncols=1)
        rows0, _ = qlib.select(ctx.impl, s_, tail + " limit 0", cwd=ctx.scratch, ncols=1)
        rows2, _ = qlib.select(ctx.impl, s_, tail + " limit 2", cwd=ctx.scratch, ncols=1)
        return job, base_rows, rows, rows0, rows2, r

    for (tail, s_), base_rows, rows, rows0, rows2, r in pmap(uone, ujobs):
        st["evaluations"] += 1
        case = {"query": r["query"]}
        if base_rows is None or rows is None or rows0 is None or rows2 is None:
            ctx.violation("impl-violates-spec", "query failed: %r" % r["stderr"][:160], input=case)
            continue
        m = len(base_rows)
        if len(rows) != m or len(rows0) != m or len(rows2) != min(2, m):
            ctx.violation("impl-violates-spec", "`%s`: %d rows without LIMIT, %d with limit 0, %d with limit 2; %d entries match" % (s_, len(rows), len(rows0), len(rows2), m), input=case)
        else:
            st["agreed"] += 1
            st["hist"]["unlimited_means_every_entry"] += 1
    # ---- grouped queries: LIMIT counts the group rows (repaired finding F67) ----
    gjobs = []
    for c in cases[: (8 if ctx.tier == "quick" else 80)]:
        for key in ("ext", "is_dir", "length(name)"):
            for ob in ("", " order by %s" % key, " order by count(*) desc, %s" % key, " order by %s desc" % key):
                gjobs.append((c["tail"], key, ob))

    def gone(job):
        tail, key, ob = job
        full, r0 = qlib.select(ctx.impl, "%s, count(*), sum(size)" % key, "%s group by %s%s" % (tail, key, ob), cwd=ctx.scratch, ncols=3)
        outs = []
        if full is not None:
            for n in list(range(1, len(full) + 3)) + [0]:
                rows, r = qlib.select(ctx.impl, "%s, count(*), sum(size)" % key, "%s group by %s%s limit %d" % (tail, key, ob, n), cwd=ctx.scratch, ncols=3)
                outs.append((n, rows, r))
        return job, full, r0, outs

    for (tail, key, ob), full, r0, outs in pmap(gone, gjobs):
        if full is None:
            ctx.violation("impl-violates-spec", "grouped query failed: %r" % r0["stderr"][:160], input={"query": r0["query"]})
            continue
        for n, rows, r in outs:
            st["evaluations"] += 1
            case = {"query": r["query"], "unlimited_rows": len(full)}
            want = len(full) if n == 0 else min(n, len(full))
            if rows is None or len(rows) != want:
                ctx.violation("impl-violates-spec", "grouped query: limit %d returned %s rows, the unlimited query returns %d" % (n, None if rows is None else len(rows), len(full)), input=case)
                break
            if ob and rows != full[:len(rows)]:          # group keys are distinct: the ordered prefix is determined (ties on count(*) are broken by the key)
                ctx.violation("impl-violates-spec", "grouped query: the rows under limit %d are not the first rows of the ordered unlimited result" % n, input=case, observed=rows[:6], expected=full[:6])
                break
            if not ob and any(x not in full for x in rows):
                ctx.violation("impl-violates-spec", "grouped query: a row under limit %d is not a row of the unlimited result" % n, input=case, observed=rows[:6])
                break
            st["agreed"] += 1
            if 0 < n < len(full):
                st["distinct"].add(r["query"])
            st["hist"]["grouped_" + ("ordered" if ob else "unordered")] += 1
    from .common import replay_generic_known
    replay_generic_known(ctx, 'C06')
    ctx.coverage.update(
        evaluations=st["evaluations"], distinct_nontrivial=len(st["distinct"]), traces_validated_against_impl=st["agreed"],
        rule="harness: random insertion sequences into the real TopN with limits 1-5 vs model.TopN.run; binary: for each generated (tree with ties, query [ordered and unordered, optional WHERE, bfs/dfs]) EVERY N in 1..M+2 and 0: row count = min(N,M), sub-multiset, key sequence = first N keys of the full sort, and literal prefix of the unlimited result (what the theorems predict). grouped queries (group rows are the rows LIMIT counts) under every N likewise; select lists that mention a column only inside a function argument or an operand return one row per entry without LIMIT and with `limit 0`. non-trivial = the cut falls strictly inside the result",
        samples=st["samples"], distribution=dict(st["hist"]), exhaustive_over_N=True)
    return ctx.finish(trusted=["unordered prefix relies on the walker visiting entries in the same order in both runs (same process-independent getdents order)"])
