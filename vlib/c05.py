"""C05 — ORDER BY output is sorted by the requested keys and loses or invents no row."""
import collections

from . import orderlib


def explore(ctx, n_h, n_b, big=False):
    st = dict(evaluations=0, agreed=0, distinct=set(), samples=[], hist=collections.Counter())
    # (a) harness: the real TopN<Criteria<String>, String> vs the Gallina TopN on random insertion sequences
    try:
        hc = orderlib.harness_topn_cases(ctx, n_h)
    except Exception as e:  # harness not buildable after a refactor: binary-only correspondence
        ctx.notes.append("harness: fallback-binary-only (%s)" % str(e)[:200])
        ctx.violation("correspondence-mismatch", "the real functions could not be reached through the harness (#[path] inclusion of /repo/src): %s" % str(e)[:300], input={}, concrete=False,
                      correspondence="harness build / run")
        hc = []
    for c in hc:
        st["evaluations"] += 1
        r = c["result"]
        case = {"harness": c["request"]}
        if "r" not in r:
            ctx.violation("impl-violates-spec", "TopN/Criteria aborted: %s" % r, input=case)
            continue
        vals = r["r"]["values"]
        ev = [x for x in r["r"]["evicted"] if x is not None]
        ins = [x["v"] for x in c["request"]["inserts"]]
        # spec: nothing lost or invented; limit respected
        if sorted(vals + ev) != sorted(ins) or (c["lim"] and len(vals) != min(c["lim"], len(ins))):
            ctx.violation("impl-violates-spec", "TopN lost or invented a value, or ignored its limit", input=case, observed=r["r"])
        if vals != c["model"]:
            ctx.violation("correspondence-mismatch", "TopN.values() differs from the model", input=case, observed=vals,
                          model=c["model"], concrete=False, correspondence="harness TopN<Criteria> vs model.TopN.run")
        else:
            st["agreed"] += 1
        if len(ins) >= 3 and len(set(c["rows"])) < len(c["rows"]):
            st["distinct"].add(("h", str(c["request"])))
        st["hist"]["harness_len_%d" % min(len(ins), 12)] += 1
        if len(st["samples"]) < 2 and len(ins) >= 4:
            st["samples"].append({"harness_request": c["request"], "values": vals})
    return st


def run(ctx):
    ctx.prepare()
    ctx.check_proofs()
    if ctx.tier == "thorough" and not ctx.proof_failure:
        ok, out = ctx.coqchk()
        if not ok:
            ctx.proof_failure = "coqchk failed: " + out[-500:]
    n_h, n_b = (300, 90) if ctx.tier == "quick" else (6000, 1500)
    st = explore_full(ctx, n_h, n_b)
    from .common import replay_generic_known
    replay_generic_known(ctx, 'C05')
    ctx.coverage.update(
        evaluations=st["evaluations"], distinct_nontrivial=len(st["distinct"]),
        traces_validated_against_impl=st["agreed"],
        rule="harness: random insertion sequences (0-12 rows, 1-3 keys, asc/desc, limits 0-5) into the real TopN<Criteria<String>,String> compared with model.TopN.run; binary: trees with many ties x key lists of 1-3 keys over %s x directions x positional/explicit x optional WHERE x bfs/dfs: ordered rows must be a sorted permutation of the unordered rows AND equal the model's order of the unordered rows (stable: ties in traversal order). non-trivial = at least 3 rows with at least one key tie" % [k for k, _ in orderlib.KEYS],
        samples=st["samples"], distribution=dict(st["hist"]))
    return ctx.finish(trusted=[
        "numeric keys restricted to canonical digit strings in the correspondence (numkey_digits); parse_filesize suffix handling is covered by C14",
        "row values are taken from the binary's own unordered run (their correctness is C04's subject)"])


def explore_full(ctx, n_h, n_b):
    st = explore(ctx, n_h, 0)
    cases = orderlib.run_binary_cases(ctx, n_b, ctx.tier == "thorough")
    checked = []
    for c in cases:
        st["evaluations"] += 1
        case = {"tree": c["root"], "unordered_query": c["q0"], "ordered_query": c["q1"]}
        rows0, rows1 = c["rows0"], c["rows1"]
        if rows0 is None or rows1 is None or c["r0"]["status"] != 0 or c["r1"]["status"] != 0:
            ctx.violation("impl-violates-spec", "query failed: status %s/%s stderr %r" % (c["r0"]["status"], c["r1"]["status"], c["r1"]["stderr"][:200]), input=case)
            continue
        paths0 = [r[0] for r in rows0]
        paths1 = [r[0] for r in rows1]
        keyof = {r[0]: r[1:] for r in rows0}
        if sorted(paths0) != sorted(paths1):
            ctx.violation("impl-violates-spec", "ORDER BY changed the set of rows", input=case, observed=paths1, expected=sorted(paths0))
            continue
        bad = orderlib.spec_sorted(c["keys"], c["asc"], [keyof[p] for p in paths1])
        if bad is not None:
            ctx.violation("impl-violates-spec", "rows %d and %d are out of order under `%s`" % (bad, bad + 1, c["order"]),
                          input=case, observed=[(p, keyof[p]) for p in paths1[max(0, bad - 1):bad + 3]])
        st["hist"]["keys_%d" % len(c["keys"])] += 1
        st["hist"]["rows_%s" % ("0" if not rows0 else "1-5" if len(rows0) <= 5 else "6-20" if len(rows0) <= 20 else ">20")] += 1
        keyrows = [r[1:] for r in rows0]
        if len(rows0) >= 3 and len(set(keyrows)) < len(keyrows):
            st["distinct"].add(("b", c["q1"], c["root"]))
        checked.append((c, keyrows, paths0, paths1, case))
    model = orderlib.model_order(ctx, [([(k[1], a) for k, a in zip(c["keys"], c["asc"])], None, keyrows) for c, keyrows, _, _, _ in checked], "c05b")
    for (c, keyrows, paths0, paths1, case), mo in zip(checked, model):
        exp = [paths0[i] for i in mo]
        if exp != paths1:
            ctx.violation("correspondence-mismatch", "ordered rows differ from the model's order of the same rows", input=case,
                          observed=paths1, model=exp, concrete=False, correspondence="binary ORDER BY vs model.TopN.run over model.Criteria")
        else:
            st["agreed"] += 1
            if len(st["samples"]) < 4 and len(paths1) >= 4:
                st["samples"].append({"query": c["q1"], "rows": paths1[:6], "keys": [list(keyrows[paths0.index(p)]) for p in paths1[:6]]})
    return st
