"""Shared by C05 (ORDER BY) and C06 (LIMIT): case generation, model evaluation, spec checks."""
import collections
import os

from . import fstree, qlib
from .common import gstr, glist, gbool, coq_eval, parse_nested, pmap

# ordering keys: (text in the query, kind for the model, python key function)
KEYS = [
    ("name", "KStr"), ("size", "KNum"), ("ext", "KStr"), ("path", "KStr"), ("dir", "KStr"),
    ("length(name)", "KNum"), ("uid", "KNum"), ("mode", "KStr"), ("is_dir", "KStr"),
    ("hardlinks", "KNum"), ("inode", "KNum"),      # not `blocks`: the kernel may allocate a fresh file's blocks between two runs
    # integer-valued expressions over numeric columns, some of them negative for some entries
    ("size + 1", "KNum"), ("size * 2", "KNum"), ("size % 1000", "KNum"), ("hardlinks + size", "KNum"), ("length(name) * 100", "KNum"),
    ("size - 50", "KNum"), ("length(name) - 10", "KNum"),
    # ... with the number first (an expression, not a position, since fix 7b109d9) and with the column in the right operand only
    ("1 + size", "KNum"), ("10 - length(name)", "KNum"), ("2 * size", "KNum"), ("1000 - size", "KNum"), ("3 * hardlinks + size", "KNum"),
    # date columns order chronologically; integer-valued functions of a date column order numerically
    ("modified", "KDate"), ("day(modified)", "KNum"), ("month(modified)", "KNum"), ("year(modified)", "KNum"),
]
EXPR_KEYS = {"size + 1", "size * 2", "size % 1000", "hardlinks + size", "length(name) * 100", "size - 50", "length(name) - 10",
             "1 + size", "10 - length(name)", "2 * size", "1000 - size", "3 * hardlinks + size"}

COQ_HEADER = """From Coq Require Import List NArith ZArith Bool.
From FS Require Import lib.Str lib.Res lib.Dec model.TopN model.Criteria model.Datetime.
Import ListNotations. Open Scope N_scope.
(* parse_datetime(text).unwrap_or(1970-01-01).0 on the printed form of a date column *)
Definition datekey_text (x : str) : Z := match parse_datetime 0 x with Det (Ok (a, _)) => a | _ => 0%Z end.
Definition runm (ks : list (kind * bool)) (lim : option nat) (rows : list (list str * N)) : list N :=
  values (run (crit_le numkey_digits datekey_text ks) lim rows).
"""


def order_tree(rng, big=False):
    """A tree with many key ties: few distinct sizes, repeated names in different directories; modification times on days
    and months of one and two digits, in several years, with ties."""
    MT = [1609459200 + d * 86400 + h * 3600 for d in (0, 1, 8, 9, 29, 30, 31, 58, 150, 334, 364, 365, 400, 1000) for h in (0, 13)]
    names = ["a", "b", "A", "a.txt", "b.txt", "c.rs", "10", "9", "z z", "é", "x.TXT", "aa", "B.txt", "_", "a.b.c"]
    sizes = [0, 9, 10, 10, 99, 100, 100, 1000, 5]
    nd = rng.randint(1, 4 if not big else 7)
    nodes = []
    used = set()
    for i in range(nd):
        dn = rng.choice(["d%d" % i, "D%d" % i, "sub %d" % i])
        kids = []
        for n in rng.sample(names, rng.randint(1, 6 if not big else 12)):
            if rng.random() < 0.15:
                kids.append({"name": n, "kind": "dir", "kids": [{"name": "in", "kind": "file", "size": rng.choice(sizes)}]})
            else:
                kids.append({"name": n, "kind": "file", "size": rng.choice(sizes), "mtime": rng.choice(MT)})
        nodes.append({"name": dn, "kind": "dir", "kids": kids, "mtime": rng.choice(MT)})
    for n in rng.sample(names, rng.randint(0, 4)):
        nodes.append({"name": n, "kind": "file", "size": rng.choice(sizes), "mtime": rng.choice(MT)})
    # digit-only names of different lengths and with a leading zero: as TEXT 10 < 9 and 07 < 10 < 9 (a numeric reading orders them 07, 9, 10)
    top = {n["name"] for n in nodes}
    for nm in ("9", "10", "07", "100"):
        if nm not in top:
            nodes.append({"name": nm, "kind": "file", "size": rng.choice(sizes), "mtime": rng.choice(MT)})
    # link counts of one, two and more than nine digits' worth: 12 sorts after 2 as a number, before it as text
    nodes.append({"name": "hl12", "kind": "file", "size": 70000, "hardlinks": ["hl12_%d" % i for i in range(rng.choice([9, 11]))]})
    nodes.append({"name": "hl2", "kind": "file", "size": 4097, "hardlinks": ["hl2_1"]})
    return nodes


def gen_case(rng, idx):
    nk = rng.choice([1, 1, 2, 2, 3])
    keys = rng.sample(KEYS, nk)
    asc = [rng.random() < 0.6 for _ in keys]
    if rng.random() < 0.3:
        # the same key again (it can never break a tie left by its first occurrence), usually with the other direction
        j = rng.randrange(len(keys))
        keys.append(keys[j])
        asc.append((not asc[j]) if rng.random() < 0.8 else asc[j])
    where = rng.choice(["", "", "where size >= 10", "where is_file = true", "where name != 'a'", "where size < 100"])
    trav = rng.choice(["", "", "dfs", "bfs"])
    # select list: path first, then possibly some keys (so that positional spelling can be used)
    selected = ["path"] + [k for k, _ in keys if rng.random() < 0.5 and k != "path"]
    must_pos = set()
    spell = []
    for (k, _), a in zip(keys, asc):
        if k in selected and (k in must_pos or rng.random() < 0.5):
            t = str(selected.index(k) + 1)
        else:
            t = k
        if not a:
            t += " desc"
        elif rng.random() < 0.2:
            t += " asc"
        spell.append(t)
    return dict(idx=idx, keys=keys, asc=asc, where=where, trav=trav, selected=selected, order=", ".join(spell))


def py_key(kind, v):
    if kind == "KNum":
        return int(v) if v.lstrip("-").isdigit() else 0
    if kind == "KDate":
        import calendar
        import time
        return calendar.timegm(time.strptime(v, "%Y-%m-%d %H:%M:%S"))
    return v


def spec_sorted(keys, asc, rows_keys):
    """First adjacent pair out of order (documented semantics), or None."""
    def cmp_pair(a, b):
        for (k, kind), up, x, y in zip(keys, asc, a, b):
            kx, ky = py_key(kind, x), py_key(kind, y)
            if kx != ky:
                less = kx < ky
                return less if up else not less
        return True
    for i in range(len(rows_keys) - 1):
        if not cmp_pair(rows_keys[i], rows_keys[i + 1]):
            return i
    return None


def model_order(ctx, cases, tag):
    """cases: list of (ks [(kind, asc)], limit or None, rows [(keys tuple)]) -> list of index lists."""
    exprs = []
    for ks, lim, rows in cases:
        kst = glist(["(%s, %s)" % (k, gbool(a)) for k, a in ks])
        rt = glist(["(%s, %d)" % (glist([gstr(x) for x in keys], "str"), i) for i, keys in enumerate(rows)], "(list str * N)")
        exprs.append("runm %s %s %s" % (kst, "None" if lim is None else "(Some %d%%nat)" % lim, rt))
    res = coq_eval(COQ_HEADER, exprs, ctx.scratch, tag=tag, shard=40)
    out = []
    for r in res:
        v = parse_nested(r)
        out.append(v if isinstance(v, list) else [])
    return out


def run_binary_cases(ctx, ncases, big=False):
    """Returns list of dicts with the unordered rows (path + key values) and the ordered paths."""
    rng = ctx.rng
    trees = []
    ntrees = max(2, ncases // 6)
    for t in range(ntrees):
        root = qlib.make_tree(ctx, "ot%d" % t, order_tree(rng, big))
        trees.append(root)
    cases = []
    for i in range(ncases):
        c = gen_case(rng, i)
        c["root"] = trees[i % ntrees]
        # sometimes two or three roots (every root is searched whole: the top N may come from the last one), the later ones
        # reached through a sub-directory of another tree so that the roots sit at different nesting levels
        c["more_roots"] = []
        if rng.random() < 0.3:
            for _ in range(rng.choice([1, 1, 2])):
                other = trees[rng.randrange(ntrees)]
                if other == c["root"] or other in [m[0] for m in c["more_roots"]]:
                    continue
                subs = [d for d in sorted(os.listdir(other)) if os.path.isdir(os.path.join(other, d)) and "," not in d and " " not in d]
                spell = os.path.basename(other) if not subs or rng.random() < 0.5 else os.path.basename(other) + "/" + rng.choice(subs)
                c["more_roots"].append((other, spell))
        cases.append(c)

    def one(c):
        root = os.path.basename(c["root"])
        keycols = ", ".join(k for k, _ in c["keys"])
        froms = ["%s %s" % (root, c["trav"])] + ["%s %s" % (sp, c["trav"]) for _, sp in c.get("more_roots", [])]
        tail = "from %s %s" % (", ".join(f.strip() for f in froms), c["where"])
        c["tail"] = tail
        rows0, r0 = qlib.select(ctx.impl, "path, " + keycols, tail, cwd=ctx.scratch)
        cols1 = ", ".join(c["selected"])
        rows1, r1 = qlib.select(ctx.impl, cols1, tail + " order by " + c["order"], cwd=ctx.scratch)
        c.update(rows0=rows0, r0=r0, rows1=rows1, r1=r1, q0=r0["query"], q1=r1["query"])
        return c

    return pmap(one, cases)


def harness_topn_cases(ctx, n):
    """Random insertion sequences into the real TopN<Criteria<String>, String> vs the model."""
    from .harness import Harness
    rng = ctx.rng
    h = Harness()
    reqs, meta = [], []
    pool_s = ["a", "b", "A", "", "ab", "é", "10", "9", "b "]
    pool_n = ["0", "5", "9", "10", "10", "99", "100", "007", "18446744073709551615"]
    for i in range(n):
        nk = rng.choice([1, 1, 2, 3])
        fields = [rng.choice(["name", "size", "ext", "length(name)"]) for _ in range(nk)]
        # "length(name)" cannot be expressed to the harness as a parsed expression: use function Length
        fields_h = [("length" if f == "length(name)" else f) for f in fields]
        kinds = ["KNum" if f in ("size", "length(name)") else "KStr" for f in fields]
        asc = [rng.random() < 0.6 for _ in fields]
        lim = rng.choice([0, 0, 1, 2, 3, 5])
        m = rng.randint(0, 12)
        ins = []
        for j in range(m):
            keys = [rng.choice(pool_n if k == "KNum" else pool_s) for k in kinds]
            ins.append({"k": keys, "v": str(j)})
        reqs.append({"cmd": "topn", "limit": lim, "fields": fields_h, "asc": asc, "inserts": ins})
        meta.append((list(zip(kinds, asc)), lim or None, [tuple(x["k"]) for x in ins]))
    res = h.batch(reqs)
    model = model_order(ctx, meta, "topn_h")
    out = []
    for rq, rs, (ks, lim, rows), mo in zip(reqs, res, meta, model):
        out.append(dict(request=rq, result=rs, model=[str(x) for x in mo], ks=ks, lim=lim, rows=rows))
    return out
