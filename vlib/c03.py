"""C03 — AND / OR / NOT and brackets obey Boolean algebra over the result sets."""
import collections
import itertools
import os

from . import qlib
from .common import gstr, glist, coq_eval, parse_nested, pmap

# atoms over always-present columns, one of every operator kind; each is (text, negatable-by-infix-not text or None)
ATOMS = [
    "size > 10", "size >= 10", "size < 10", "size <= 10", "size = 10", "size != 10", "size gte 100", "size between 5 and 50",
    "name like 'a%'", "name = '*.txt'", "name != 'b*'", "name === 'a.txt'", "name =~ '^[ab]'", "name !=~ 'x$'", "ext = 'txt'",
    "is_dir = false", "is_dir = true", "is_file = 1", "hardlinks >= 1", "length(name) > 3", "uid = 0", "mode = '-rw-r--r--'",
    "size not between 5 and 50", "name not like 'a%'",
    # bare boolean columns and functions (the documented shorthand for `= true`)
    "is_dir", "is_file", "is_hidden", "contains('xxxxx')",
    # pattern atoms of DIFFERENT kinds that share one literal text (each operator reads the text in its own way)
    "name like 'ab'", "name =~ 'ab'", "name = 'a?'", "name like 'a?'", "name =~ 'a?'", "name like '%.txt'", "name = '%.txt'", "name =~ '%.txt'", "name = '*.txt'", "name like '*.txt'",
    # date atoms: a literal coarser than a second denotes an interval, and entries lie before, inside (first second, middle, last second) and after it
    "modified > '2024-03-10'", "modified <= '2024-03-10'", "modified = '2024-03-10'", "modified >= '2024-03-10 12'", "modified < '2024-03-10 12:00'", "modified != '2024-03-10 12:00:00'",
]
BARE = ["is_dir", "is_file", "is_hidden", "contains('xxxxx')"]


def build_tree(ctx):
    """Entries realising all truth assignments of typical atom triples, incl. attribute = literal."""
    root = os.path.join(ctx.scratch, "b")
    os.mkdir(root)
    sizes = [0, 4, 5, 9, 10, 11, 50, 51, 99, 100, 101, 1000]
    names = ["a.txt", "a", "ab", "b.txt", "b", "x", "ax", "c.rs", "abcd.txt", "bx", "A.TXT", "zzzz", ".a.txt", ".b"]
    k = 0
    for d in ("", "d1", "d2"):
        dp = os.path.join(root, d)
        os.makedirs(dp, exist_ok=True)
        for i, nm in enumerate(names):
            sz = sizes[(i + k) % len(sizes)]
            with open(os.path.join(dp, nm), "wb") as f:
                f.write(b"x" * sz)
        k += 5
    # modification times around (and inside) the day 2024-03-10 and its noon hour / minute
    import calendar
    base = calendar.timegm((2024, 3, 10, 0, 0, 0))
    offs = [-1, 0, 1, 43199, 43200, 43201, 43259, 43260, 46799, 46800, 86399, 86400, 200000, -90000]
    i = 0
    for dp, ds, fs in sorted(os.walk(root)):
        for nm in sorted(fs):
            tt = (base + offs[i % len(offs)]) * 1000000000 + (500000000 if i % 3 == 0 else 0)
            os.utime(os.path.join(dp, nm), ns=(tt, tt))
            i += 1
    return root


class F:
    """Formula AST: ('atom', i) | ('and', l, r) | ('or', l, r) | ('not', x)."""


def gen_formula(rng, depth, natoms):
    if depth == 0 or rng.random() < 0.25:
        return ("atom", rng.randrange(natoms))
    r = rng.random()
    if r < 0.35:
        return ("and", gen_formula(rng, depth - 1, natoms), gen_formula(rng, depth - 1, natoms))
    if r < 0.7:
        return ("or", gen_formula(rng, depth - 1, natoms), gen_formula(rng, depth - 1, natoms))
    return ("not", gen_formula(rng, depth - 1, natoms))


def all_formulas(size, natoms):
    """Every formula shape with exactly `size` nodes (atoms + connectives) over natoms atoms."""
    if size == 1:
        return [("atom", i) for i in range(natoms)]
    out = [("not", x) for x in all_formulas(size - 1, natoms)]
    for ls in range(1, size - 1):
        for l in all_formulas(ls, natoms):
            for r in all_formulas(size - 1 - ls, natoms):
                out.append(("and", l, r))
                out.append(("or", l, r))
    return out


def render(f, atoms, rng, parent=None, side=None):
    """Minimal brackets by precedence (not > and > or), random bracket style; extra brackets sometimes."""
    k = f[0]
    if k == "atom":
        s = atoms[f[1]]
        need = False
    elif k == "not":
        inner = f[1]
        s_in = render(inner, atoms, rng, "not")
        s = "not " + s_in
        need = False
    else:
        l = render(f[1], atoms, rng, k, "l")
        r = render(f[2], atoms, rng, k, "r")
        s = "%s %s %s" % (l, k, r)
        need = (parent == "not") or (parent == "and" and k == "or")
        # the parser nests chains to the right: (a and b) and c is parsed from a and b and c as a and (b and c): same set
    if k == "atom" and parent == "not" and False:
        need = True
    if need or (k != "atom" and rng.random() < 0.15):
        o, c = rng.choice([("(", ")"), ("{", "}")])
        s = o + s + c
    return s


def needs_brackets_for_not(f):
    return f[0] in ("and", "or")


def evalf(f, truth):
    k = f[0]
    if k == "atom":
        return truth[f[1]]
    if k == "not":
        return ~evalf(f[1], truth) & truth["all"]
    a, b = evalf(f[1], truth), evalf(f[2], truth)
    return (a & b) if k == "and" else (a | b)


def size_of(f):
    return 1 if f[0] == "atom" else 1 + sum(size_of(x) for x in f[1:])


def run(ctx):
    ctx.prepare()
    ctx.check_proofs()
    if ctx.tier == "thorough" and not ctx.proof_failure:
        ok, out = ctx.coqchk()
        if not ok:
            ctx.proof_failure = "coqchk failed: " + out[-500:]
    rng = ctx.rng
    root = build_tree(ctx)
    allrows, r = qlib.select(ctx.impl, "path", "from b", cwd=ctx.scratch)
    universe = sorted(x[0] for x in allrows)
    idx = {p: i for i, p in enumerate(universe)}
    full = (1 << len(universe)) - 1

    def rowset(rows):
        m = 0
        for x in rows:
            m |= 1 << idx[x[0]]
        return m

    # truth of every atom from the implementation itself (the property speaks about result SETS)
    def atom_rows(a):
        rows, r = qlib.select(ctx.impl, "path", "from b where " + a, cwd=ctx.scratch)
        return a, rows, r

    truth_of = {}
    for a, rows, r in pmap(atom_rows, ATOMS):
        if rows is None or r["status"] != 0:
            ctx.violation("impl-violates-spec", "atom query failed: %s (status %s, stderr %r)" % (a, r["status"], r["stderr"][:200]), input={"query": r["query"]})
            continue
        truth_of[a] = rowset(rows)
    # the documented complements between atoms themselves: `x not between a and b` / `x between a and b`, the infix
    # `not like`, and each comparison with its opposite - with bounds that occur as attribute values in the tree
    comp_pairs = [("size between 5 and 50", "size not between 5 and 50"), ("size between 10 and 100", "size not between 10 and 100"), ("size between 0 and 1000", "size not between 0 and 1000"),
                  ("size between 11 and 11", "size not between 11 and 11"), ("length(name) between 2 and 5", "length(name) not between 2 and 5"),
                  ("name like 'a%'", "name not like 'a%'"), ("name like '%.txt'", "name notlike '%.txt'"), ("size = 10", "size != 10"), ("size > 10", "size <= 10"), ("size >= 50", "size < 50"),
                  ("name =~ '^[ab]'", "name !=~ '^[ab]'"), ("name = '*.txt'", "name != '*.txt'"), ("name === 'a.txt'", "name !== 'a.txt'"), ("is_dir = true", "is_dir != true"),
                  ("modified > '2024-03-10'", "modified <= '2024-03-10'"), ("modified >= '2024-03-10'", "modified < '2024-03-10'"), ("modified = '2024-03-10'", "modified != '2024-03-10'"),
                  ("modified > '2024-03-10 12'", "modified <= '2024-03-10 12'"), ("modified >= '2024-03-10 12:00'", "modified < '2024-03-10 12:00'"), ("modified > '2024-03-10'", "not modified > '2024-03-10'"),
                  ("modified < '2024-03-10 12'", "not modified < '2024-03-10 12'"),
                  ("is_dir", "not is_dir"), ("is_hidden", "not is_hidden"), ("is_file", "not is_file"), ("contains('xxxxx')", "not contains('xxxxx')"),
                  ("is_dir", "is_dir = false"), ("is_hidden", "is_hidden != true"), ("not is_dir", "is_dir = true"), ("not not is_hidden", "not is_hidden")]
    for a, b, (_, ra, qa), (_, rb, qb) in [(a, b, atom_rows(a), atom_rows(b)) for a, b in comp_pairs]:
        st_case = {"tree": root, "queries": [qa["query"], qb["query"]]}
        if ra is None or rb is None or qa["status"] != 0 or qb["status"] != 0:
            ctx.violation("impl-violates-spec", "atom query failed: %s / %s" % (a, b), input=st_case)
            continue
        sa, sb = rowset(ra), rowset(rb)
        if sa & sb or (sa | sb) != full:
            both = [universe[i] for i in range(len(universe)) if ((sa & sb) >> i) & 1][:6]
            none = [universe[i] for i in range(len(universe)) if ((full ^ (sa | sb)) >> i) & 1][:6]
            ctx.violation("impl-violates-spec", "`%s` is not the complement of `%s`: returned by both %s, by neither %s" % (b, a, both, none), input=st_case)
    jobs = []
    # bounded-exhaustive: every formula shape up to a size bound over three atoms
    bound = 5 if ctx.tier == "quick" else 7
    triples = [rng.sample([a for a in ATOMS if a in truth_of], 3) for _ in range(4 if ctx.tier == "quick" else 12)]
    # a bare boolean atom takes part in at least half of the exhaustive triples
    for j, tr in enumerate(triples):
        if j % 2 == 0 and not any(a in BARE for a in tr):
            tr[rng.randrange(3)] = rng.choice([a for a in BARE if a in truth_of])
    # one exhaustive triple consists of atoms that share a literal text across operator kinds
    SAME = [["name like 'ab'", "name =~ 'ab'", "name = 'a?'"], ["name = 'a?'", "name like 'a?'", "name =~ 'a?'"], ["name like '%.txt'", "name =~ '%.txt'", "name = '*.txt'"], ["name = '*.txt'", "name like '*.txt'", "name like '%.txt'"]]
    SAME = [s_ for s_ in SAME if all(a in truth_of for a in s_)]
    if SAME and len(triples) >= 3:
        triples[2] = list(rng.choice(SAME))
    DATE = [a for a in ATOMS if a.startswith("modified") and a in truth_of]
    for j, tr in enumerate(triples):
        if j % 2 == 1 and DATE and not any(a in DATE for a in tr):
            tr[rng.randrange(3)] = rng.choice(DATE)
    for atoms in triples:
        for size in range(1, bound + 1):
            fs = all_formulas(size, 3)
            if ctx.tier == "quick" and len(fs) > 150:
                fs = rng.sample(fs, 150)
            for f in fs:
                jobs.append((atoms, f))
    # random deeper formulas over any atoms
    for _ in range(300 if ctx.tier == "quick" else 8000):
        atoms = rng.sample([a for a in ATOMS if a in truth_of], rng.randint(2, 5))
        jobs.append((atoms, gen_formula(rng, rng.randint(2, 5), len(atoms))))

    def one(job):
        atoms, f = job
        text = render(f, atoms, rng)
        rows, r = qlib.select(ctx.impl, "path", "from b where " + text, cwd=ctx.scratch)
        return job, text, rows, r

    st = dict(agreed=0, distinct=set(), samples=[], hist=collections.Counter())
    done_texts = []
    for (atoms, f), text, rows, r in pmap(one, jobs):
        done_texts.append((f, text))
        case = {"tree": "14 names x 3 directories, sizes 0..1000 (see vlib/c03.py build_tree)", "query": r["query"], "atoms": atoms}
        if rows is None or r["status"] != 0:
            ctx.violation("impl-violates-spec", "status %s stderr %r" % (r["status"], r["stderr"][:200]), input=case)
            continue
        truth = {i: truth_of[a] for i, a in enumerate(atoms)}
        truth["all"] = full
        exp = evalf(f, truth)
        got = rowset(rows)
        if got != exp:
            diff = [universe[i] for i in range(len(universe)) if ((got ^ exp) >> i) & 1][:6]
            ctx.violation("impl-violates-spec", "result set of the formula differs from the Boolean combination of its atoms' result sets (entries %s)" % diff, input=case,
                          observed=[universe[i] for i in range(len(universe)) if (got >> i) & 1][:12],
                          expected=[universe[i] for i in range(len(universe)) if (exp >> i) & 1][:12],
                          atom_sets={a: bin(truth_of[a]).count("1") for a in atoms})
        else:
            st["agreed"] += 1
        st["hist"]["size_%d" % min(size_of(f), 12)] += 1
        if 0 < got < full and size_of(f) >= 3:
            st["distinct"].add(text)
        if len(st["samples"]) < 4 and size_of(f) >= 5 and 0 < got < full:
            st["samples"].append({"where": text, "rows": bin(got).count("1"), "of": len(universe)})
    # ---- the same WHERE formulas through the real lexer+parser (harness) and the Gallina model the C03 theorems are about:
    #      outcome and the whole syntax tree must be identical (this is what ties C03_parser_boolean_algebra to parser.rs) ----
    n_corr = 0
    try:
        from . import parselib
        texts = sorted({x[1] for x in done_texts})
        if ctx.tier == "quick" and len(texts) > 400:
            texts = rng.sample(texts, 400)
        texts += ["not is_dir", "not not is_dir", "is_dir and not is_hidden", "not (is_dir)", "not {is_file or is_hidden}", "not contains('x') or is_dir", "not size > 3 and not name like 'a%'"]
        vectors = [["path from b where " + x] for x in texts]
        real = parselib.eval_real(vectors)
        model = parselib.eval_model(ctx, vectors, "c03p")
        for v, (rl, rq), (ml, mq) in zip(vectors, real, model):
            n_corr += 1
            if rl != ml or rq != mq:
                ctx.violation("correspondence-mismatch", "lexer/parser result for a WHERE formula differs from model.Lexer / model.Parser", input={"argv": v}, observed=(rl[:300], rq[:400]), model=(ml[:300], mq[:400]),
                              concrete=False, correspondence="harness Lexer+Parser::parse vs model.Lexer.lex + model.Parser.parse (the model of C03_parser_boolean_algebra)")
            else:
                st["agreed"] += 1
                st["hist"]["parser_model_agrees"] += 1
    except Exception as e:
        ctx.notes.append("parser correspondence unavailable (%s)" % str(e)[:200])
    ctx.coverage.update(
        evaluations=len(jobs) + len(ATOMS) + n_corr, distinct_nontrivial=len(st["distinct"]), traces_validated_against_impl=st["agreed"],
        rule="tree of 42 files incl. hidden ones (sizes around the literals: v-1, v, v+1; names around the patterns) realising the truth assignments of %d atoms of every operator kind (incl. between / not between / not like, date columns against literals of day / hour / minute precision with entries inside the literal's interval, boolean with and without `= true`, bare boolean function, regex, glob, function, pattern atoms of different kinds over one literal text); EVERY formula shape up to %d nodes over three atoms (x several atom triples) plus random formulas to depth 5, rendered with minimal or redundant brackets in both styles and prefix `not`; the documented complements between atoms (between / not between with bounds that occur in the tree, like / not like, each comparison and its opposite) are checked directly; every formula is also parsed by the real lexer+parser and by model.Parser (identical syntax trees required); the formula's result set must equal the Boolean combination (and = intersection, or = union, not = complement) of the atoms' own result sets. non-trivial = >= 3 nodes and a proper non-empty result" % (len(ATOMS), bound),
        samples=st["samples"], distribution=dict(st["hist"]), exhaustive_up_to_size=bound)
    return ctx.finish(trusted=["atom truth values are taken from the implementation's own single-atom runs (their meaning is C02's subject)"])
